#!/bin/sh
# Run once after a fresh restore, offline: builds the harness (and with it pyxis
# from /repo with hooks on) and the 32-bit mini-sysroot used by the L2 checks.
set -eu
ROOT="$(cd "$(dirname "$0")" && pwd)"
export CARGO_NET_OFFLINE=true
cd "$ROOT/harness"
cargo build --release --offline
cd "$ROOT"
# the sysroot build was once seen to fail transiently while other cargo jobs ran: try up to three times
if [ -x "$ROOT/tools/mk_sysroot32.sh" ]; then
  "$ROOT/tools/mk_sysroot32.sh" || { sleep 5; "$ROOT/tools/mk_sysroot32.sh"; } || { sleep 15; "$ROOT/tools/mk_sysroot32.sh"; }
fi
echo "setup done"
