//! C05 — address-bound wrappers call the declared address with the declared signature.

use serde::{Deserialize, Serialize};
use serde_json::{json, Value};

use super::l3common::*;
use crate::driver::*;
use crate::genprog::gen_prog;
use crate::model::*;
use crate::pipeline::*;
use crate::tape::Tape;

pub struct Calls;

impl Prop for Calls {
    type Case = Case;
    crate::prog_shrink!();
    fn name(&self) -> String {
        "C05/calls".into()
    }
    fn rule(&self) -> String {
        "programs (width 8) with impl blocks of 1-3 functions per type: address literal in any spelling and mappable on the host, with/without receiver, 0-6 integer/pointer parameters (so that some spill to the stack), with/without return type. The emitted crate is linked with a driver that plants a recording trampoline at every declared address, calls every emitted method once (also the copies inherited by derived types, whose receiver must be the base sub-object) with generated argument values and prints what the stub saw. Oracle: exactly one call, stub id = declared address, first argument = object address when there is a receiver, then the arguments in declared order (masked to their width), returned value = the stub's (masked), and the driver's binding of the result to the declared Rust type compiles. Non-trivial: program with >=1 executed call having >=2 parameters or a return value".into()
    }
    fn gen(&self, t: &mut Tape) -> Case {
        let mut cfg = l3_cfg(t);
        cfg.vfts = t.chance(1, 3);
        cfg.bases = t.chance(1, 3);
        cfg.enums = false;
        cfg.ext_vals = false;
        cfg.singletons = false;
        if t.chance(1, 3) {
            // inherited address-bound functions on packed derived types, bases at odd offsets
            cfg.packed_den = 2;
            cfg.bases = true;
            cfg.base_num = 2;
        }
        let (prog, _, _) = gen_prog(t, cfg);
        Case { prog, seed: t.u64() }
    }
    fn judge(&self, c: &Case) -> Outcome {
        // "forward": the same declared functions called through the copies that derived types inherit (the
        // receiver the callee sees must be the base sub-object)
        let r = match run_l3(c, &["own", "forward"]) {
            Ok(r) => r,
            Err(o) => return o,
        };
        if !r.failures.is_empty() {
            return Outcome::fail("wrong-call", r.failures.join("\n"));
        }
        let rich = c.prog.mods.iter().any(|m| m.impls.iter().any(|i| i.funcs.iter().any(|f| f.args.len() >= 3 || f.ret.is_some())));
        Outcome::pass(r.checked >= 1 && rich)
            .class(&format!("calls:{}", bucket(r.checked)))
            .class(&format!("unmappable:{}", bucket(r.skipped)))
            .class(&format!("unobservable-signatures:{}", bucket(r.skipped_sigs)))
    }
    fn show(&self, c: &Case) -> Value {
        show_case(c)
    }
}

// ------------------------------------------------------------ redeclared inherited functions (L0 + L3)

/// A derived type that declares, at an address of its own, a function it also inherits from a base.
pub struct Redeclared;

/// (derived type, function name) pairs where the derived type's own impl block names a function that an impl
/// block of one of its direct base types (same module) names too
fn redeclared_sites(p: &Prog) -> usize {
    let mut n = 0;
    for m in &p.mods {
        for td in m.types() {
            for bf in td.fields.iter().filter(|f| f.base) {
                let Ty::Named(bn) = &bf.ty else { continue };
                let base_names: Vec<&String> = m.impls.iter().filter(|im| &im.ty == bn).flat_map(|im| im.funcs.iter().map(|f| &f.name)).collect();
                n += m.impls.iter().filter(|im| im.ty == td.name).flat_map(|im| im.funcs.iter()).filter(|f| base_names.contains(&&f.name)).count();
            }
        }
    }
    n
}

impl Prop for Redeclared {
    type Case = Case;
    crate::prog_shrink!();
    fn name(&self) -> String {
        "C05/redeclared".into()
    }
    fn rule(&self) -> String {
        "the C05/calls programs with hierarchies, in each of which one derived type declares in its own impl block, with an address of its own, a function that it inherits from a base (same name; same signature or one more parameter). Oracle: either the build is an error, or every emitted method - the redeclared one included - reaches the address declared for it (the C05/calls driver). Non-trivial: the program has such a redeclaration".into()
    }
    fn gen(&self, t: &mut Tape) -> Case {
        let mut cfg = l3_cfg(t);
        cfg.vfts = t.chance(1, 3);
        cfg.bases = true;
        cfg.enums = false;
        cfg.ext_vals = false;
        cfg.singletons = false;
        cfg.clashes = 1;
        cfg.clash_kind = Some(1);
        let (prog, _, _) = gen_prog(t, cfg);
        Case { prog, seed: t.u64() }
    }
    fn judge(&self, c: &Case) -> Outcome {
        let sites = redeclared_sites(&c.prog);
        match build_prog(&c.prog, 8) {
            Res::Panic(p) => return Outcome::fail("panic", p),
            Res::Err(_) => return Outcome::pass(sites >= 1).class("rejected"),
            Res::Ok(_) => {}
        }
        let r = match run_l3(c, &["own", "forward"]) {
            Ok(r) => r,
            Err(o) => return o,
        };
        if !r.failures.is_empty() {
            return Outcome::fail("wrong-call", r.failures.join("\n"));
        }
        Outcome::pass(sites >= 1 && r.checked >= 1).class("accepted").class(&format!("redeclarations:{}", sites.min(3)))
    }
    fn show(&self, c: &Case) -> Value {
        show_case(c)
    }
}

// ------------------------------------------------------------ rejections (L0)

#[derive(Clone, Serialize, Deserialize)]
pub struct RejectCase {
    pub what: String,
    pub w: u64,
}
pub struct Rejections;
impl Prop for Rejections {
    type Case = RejectCase;
    fn name(&self) -> String {
        "C05/rejections".into()
    }
    fn rule(&self) -> String {
        "one impl function that must not be emitted: no #[address], unresolvable parameter type, unresolvable return type (also behind a pointer), #[index] on an impl function, negative address; plus accepted controls. Oracle: Err for the former, Ok for the controls".into()
    }
    fn gen(&self, t: &mut Tape) -> RejectCase {
        RejectCase {
            what: t.pick(&["no-address", "bad-param", "bad-param-ptr", "bad-return", "bad-return-ptr", "index-on-impl", "negative-address", "control", "control-static", "control-ret"]).to_string(),
            w: if t.chance(1, 2) { 8 } else { 4 },
        }
    }
    fn judge(&self, c: &RejectCase) -> Outcome {
        let mut f = Func {
            more: vec![],
            sty: 0,
            vis: true,
            name: "f".into(),
            doc: vec![],
            args: vec![Arg::ConstSelf, Arg::Named("a".into(), Ty::n("u32"))],
            ret: None,
            addr: Some(Num::d(0x1000)),
            index: None,
            cc: None,
        };
        let mut should_fail = true;
        match c.what.as_str() {
            "no-address" => f.addr = None,
            "bad-param" => f.args.push(Arg::Named("b".into(), Ty::n("Nope"))),
            "bad-param-ptr" => f.args.push(Arg::Named("b".into(), Ty::n("Nope").cptr())),
            "bad-return" => f.ret = Some(Ty::n("Nope")),
            "bad-return-ptr" => f.ret = Some(Ty::n("Nope").mptr()),
            "index-on-impl" => f.index = Some(Num::d(0)),
            "negative-address" => f.addr = Some(Num::d(-16)),
            "control-static" => {
                f.args.remove(0);
                should_fail = false;
            }
            "control-ret" => {
                f.ret = Some(Ty::n("T").cptr());
                should_fail = false;
            }
            _ => should_fail = false,
        }
        let prog = Prog {
            mods: vec![Mod {
                path: vec!["m".into()],
                items: vec![Item::Type(TypeDef {
                    vis: true,
                    name: "T".into(),
                    fields: vec![Field::new("x", Ty::n("u32"))],
                    ..Default::default()
                })],
                impls: vec![Impl { more: vec![], ty: "T".into(), funcs: vec![f] }],
                ..Default::default()
            }],
        };
        match (build_prog(&prog, c.w as usize), should_fail) {
            (Res::Panic(p), _) => Outcome::fail("panic", p),
            (Res::Err(_), true) | (Res::Ok(_), false) => Outcome::pass(true).class(&c.what),
            (Res::Ok(b), true) => Outcome::fail(&format!("accepted:{}", c.what), format!("{} was accepted:\n{}", c.what, b.files.values().next().cloned().unwrap_or_default())),
            (Res::Err(e), false) => Outcome::fail("control-rejected", e),
        }
    }
    fn show(&self, c: &RejectCase) -> Value {
        json!({"what": c.what, "width": c.w})
    }
}

// ------------------------------------------------------------ declared order (L0 + L1)

/// The receiver written somewhere else than first, parameters of pairwise different types.
#[derive(Clone, Serialize, Deserialize)]
pub struct OrderCase {
    /// parameter types in declared order; `self` marks the receiver
    pub params: Vec<String>,
    pub w: u64,
    pub on_vfunc: bool,
}
pub struct DeclaredOrder;
impl Prop for DeclaredOrder {
    type Case = OrderCase;
    fn name(&self) -> String {
        "C05/declared-order".into()
    }
    fn rule(&self) -> String {
        "one impl (or virtual) function with 1-5 parameters of pairwise different types and the receiver written at any position among them (first, in the middle, last). Oracle: the build is an error, or the emitted method takes the receiver first and then exactly the declared parameters with their declared names and types in declared order (syn view). Non-trivial: receiver not first and >= 2 parameters before it".into()
    }
    fn gen(&self, t: &mut Tape) -> OrderCase {
        let pool = ["u8", "u16", "u32", "u64", "i8", "i16", "*const u8", "*mut u32", "bool", "i64"];
        let n = 1 + t.below(5) as usize;
        let start = t.below(pool.len() as u64) as usize;
        let mut params: Vec<String> = (0..n).map(|k| pool[(start + k) % pool.len()].to_string()).collect();
        let pos = t.below(n as u64 + 1) as usize;
        params.insert(pos, "self".into());
        OrderCase {
            params,
            w: if t.chance(1, 2) { 8 } else { 4 },
            on_vfunc: t.chance(1, 3),
        }
    }
    fn judge(&self, c: &OrderCase) -> Outcome {
        let parse_ty = |s: &str| -> Ty {
            if let Some(r) = s.strip_prefix("*const ") {
                Ty::n(r).cptr()
            } else if let Some(r) = s.strip_prefix("*mut ") {
                Ty::n(r).mptr()
            } else {
                Ty::n(s)
            }
        };
        let args: Vec<Arg> = c.params.iter().enumerate().map(|(i, p)| if p == "self" { Arg::MutSelf } else { Arg::Named(format!("p{i}"), parse_ty(p)) }).collect();
        let f = Func {
            more: vec![],
            sty: 0,
            vis: true,
            name: "f".into(),
            doc: vec![],
            args,
            ret: Some(Ty::n("u32")),
            addr: if c.on_vfunc { None } else { Some(Num::d(0x1000)) },
            index: None,
            cc: None,
        };
        let mut td = TypeDef {
            vis: true,
            name: "T".into(),
            fields: vec![Field::new("x", Ty::n("u32"))],
            ..Default::default()
        };
        let mut m = Mod {
            path: vec!["m".into()],
            ..Default::default()
        };
        if c.on_vfunc {
            td.vft = Some(Vft { size: None, funcs: vec![f] });
            td.fields.clear();
        } else {
            m.impls.push(Impl { more: vec![], ty: "T".into(), funcs: vec![f] });
        }
        m.items.push(Item::Type(td));
        let prog = Prog { mods: vec![m] };
        let pos = c.params.iter().position(|p| p == "self").unwrap_or(0);
        let nontrivial = pos >= 2;
        let class = format!("receiver-at:{}", pos.min(3));
        let built = match build_prog(&prog, c.w as usize) {
            Res::Panic(p) => return Outcome::fail("panic", p),
            Res::Err(_) => return Outcome::pass(nontrivial).class(&class).class("rejected"),
            Res::Ok(b) => b,
        };
        let v = match crate::rsview::view(&built.files["m.rs"]) {
            Ok(v) => v,
            Err(e) => return Outcome::fail("unparsable", e),
        };
        let Some(mv) = v.method("T", "f") else { return Outcome::fail("method-missing", "T::f not emitted".into()) };
        let want: Vec<(String, String)> = c.params.iter().enumerate().filter(|(_, p)| *p != "self").map(|(i, p)| (format!("p{i}"), p.replace(' ', ""))).collect();
        if mv.receiver.as_deref() != Some("&mut self") || mv.args != want {
            return Outcome::fail(
                "wrong-order",
                format!("declared ({}) ; emitted receiver {:?} and parameters {:?}, expected the receiver first and then {:?}", c.params.join(", "), mv.receiver, mv.args, want),
            )
            .class(&class);
        }
        Outcome::pass(nontrivial).class(&class).class("accepted")
    }
    fn show(&self, c: &OrderCase) -> Value {
        json!({"declared": c.params, "width": c.w, "virtual": c.on_vfunc})
    }
}

// ------------------------------------------------------------ attributes on the impl block (L1)

#[derive(Clone, Serialize, Deserialize)]
pub struct BlockCase {
    /// attributes written on the `impl` block itself
    pub block: Vec<String>,
    /// per function: (address, explicit calling convention, has a receiver)
    pub funcs: Vec<(u64, Option<String>, bool)>,
    pub w: u64,
}
pub struct BlockAttributes;
impl Prop for BlockAttributes {
    type Case = BlockCase;
    fn name(&self) -> String {
        "C05/block-attributes".into()
    }
    fn rule(&self) -> String {
        "an impl block that itself carries attributes (an address, a calling convention, a doc comment, an unknown attribute; any subset) around 1-4 functions with addresses and optional conventions of their own. Oracle: the build is an error, or every emitted method mentions its own declared address and not the block's, and its fn-pointer type carries its own declared (or default) convention (syn view). Non-trivial: the block carries an address or a convention".into()
    }
    fn gen(&self, t: &mut Tape) -> BlockCase {
        let mut block = vec![];
        if t.chance(1, 2) {
            block.push("address(0xB10C0)".to_string());
        }
        if t.chance(1, 2) {
            block.push(format!("calling_convention({:?})", t.pick(crate::genprog::CCS)));
        }
        if t.chance(1, 4) {
            block.push("doc = \" about the block\"".to_string());
        }
        if t.chance(1, 4) {
            block.push("inline".to_string());
        }
        let n = 1 + t.below(4);
        let funcs = (0..n).map(|k| (0x1000 + 0x40 * k, if t.chance(1, 2) { Some(t.pick(crate::genprog::CCS).to_string()) } else { None }, t.chance(2, 3))).collect();
        BlockCase {
            block,
            funcs,
            w: if t.chance(1, 2) { 8 } else { 4 },
        }
    }
    fn judge(&self, c: &BlockCase) -> Outcome {
        let funcs: Vec<Func> = c
            .funcs
            .iter()
            .enumerate()
            .map(|(k, (addr, cc, recv))| Func {
                more: vec![],
                sty: 0,
                vis: true,
                name: format!("f{k}"),
                doc: vec![],
                args: if *recv { vec![Arg::ConstSelf, Arg::Named("a".into(), Ty::n("u32"))] } else { vec![Arg::Named("a".into(), Ty::n("u32"))] },
                ret: None,
                addr: Some(Num::d(*addr as i128)),
                index: None,
                cc: cc.clone(),
            })
            .collect();
        let prog = Prog {
            mods: vec![Mod {
                path: vec!["m".into()],
                items: vec![Item::Type(TypeDef {
                    vis: true,
                    name: "T".into(),
                    fields: vec![Field::new("x", Ty::n("u32"))],
                    ..Default::default()
                })],
                impls: vec![Impl {
                    more: c.block.clone(),
                    ty: "T".into(),
                    funcs: funcs.clone(),
                }],
                ..Default::default()
            }],
        };
        let nontrivial = c.block.iter().any(|a| a.starts_with("address") || a.starts_with("calling_convention"));
        let built = match build_prog(&prog, c.w as usize) {
            Res::Panic(p) => return Outcome::fail("panic", p),
            Res::Err(_) => return Outcome::pass(nontrivial).class("rejected"),
            Res::Ok(b) => b,
        };
        let v = match crate::rsview::view(&built.files["m.rs"]) {
            Ok(v) => v,
            Err(e) => return Outcome::fail("unparsable", e),
        };
        for f in &funcs {
            let Some(mv) = v.method("T", &f.name) else { return Outcome::fail("method-missing", format!("T::{} not emitted", f.name)) };
            let own = f.addr.as_ref().unwrap().u() as u128;
            if !mv.body_ints.contains(&own) || mv.body_ints.contains(&0xB10C0) {
                return Outcome::fail("wrong-address", format!("T::{}: integer literals in the body {:x?}, declared address {own:x} (attributes on the block: {:?})", f.name, mv.body_ints, c.block));
            }
            let want = crate::refmodel::Model::expected_cc(f);
            if mv.body_abis.len() != 1 || mv.body_abis[0].as_deref() != Some(want.as_str()) {
                return Outcome::fail("wrong-convention", format!("T::{}: fn-pointer ABIs {:?}, the function's own convention is {want} (attributes on the block: {:?})", f.name, mv.body_abis, c.block));
            }
        }
        Outcome::pass(nontrivial).class("accepted")
    }
    fn show(&self, c: &BlockCase) -> Value {
        json!({"block_attributes": c.block, "functions": c.funcs, "width": c.w})
    }
}

pub fn props() -> Vec<Box<dyn DynProp>> {
    vec![Box::new(Calls), Box::new(Rejections), Box::new(DeclaredOrder), Box::new(BlockAttributes), Box::new(Redeclared)]
}

pub fn run(ctx: &mut Ctx) {
    let q = ctx.quick();
    ctx.run(&Rejections, &Params::new(if q { 200 } else { 2000 }, 2, 6));
    ctx.run(&DeclaredOrder, &Params::new(if q { 3000 } else { 30_000 }, 6, 12));
    ctx.run(&BlockAttributes, &Params::new(if q { 3000 } else { 30_000 }, 10, 24));
    ctx.run(&Calls, &Params::new(if q { 1200 } else { 40_000 }, 200, 3000).shrink(60));
    ctx.run(&Redeclared, &Params::new(if q { 400 } else { 10_000 }, 200, 3000).shrink(60));
}
