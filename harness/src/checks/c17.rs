//! C17 — visibility, derives, packing and documentation are carried over faithfully.

use serde::{Deserialize, Serialize};
use serde_json::{json, Value};

use crate::driver::*;
use crate::genprog::*;
use crate::model::*;
use crate::pipeline::*;
use crate::refmodel::*;
use crate::rsview::{self, Attrs};
use crate::tape::Tape;

#[derive(Clone, Serialize, Deserialize)]
pub struct Case {
    pub prog: Prog,
    pub w: u64,
}

pub struct Faithful;

type Fail = (String, String);

fn check_derives(what: &str, a: &Attrs, copyable: bool, cloneable: bool, defaultable: bool) -> Result<(), Fail> {
    let has = |d: &str| a.derives.iter().any(|x| x == d);
    if has("Copy") != copyable {
        return Err(("derive-copy".into(), format!("{what}: Copy derived = {}, copyable = {copyable}", has("Copy"))));
    }
    if has("Clone") != (copyable || cloneable) {
        return Err(("derive-clone".into(), format!("{what}: Clone derived = {}, copyable/cloneable = {}", has("Clone"), copyable || cloneable)));
    }
    if has("Default") != defaultable {
        return Err(("derive-default".into(), format!("{what}: Default derived = {}, defaultable = {defaultable}", has("Default"))));
    }
    Ok(())
}

fn docs_eq(what: &str, got: &[String], want: &[String]) -> Result<(), Fail> {
    if got != want {
        return Err(("doc".into(), format!("{what}: docs {got:?}, expected {want:?}")));
    }
    Ok(())
}

pub fn check_faithful(prog: &Prog, w: u64, built: &Built) -> Result<Vec<String>, Fail> {
    let mut model = Model::new(prog, w);
    let mut classes = vec![];
    for (mi, m) in prog.mods.iter().enumerate() {
        let src = built.files.get(&m.out_path()).ok_or(("file-missing".to_string(), m.out_path()))?;
        let v = rsview::view(src).map_err(|e| ("unparsable".to_string(), e))?;
        let mut expected_docs: Vec<String> = vec![];
        docs_eq(&format!("module {}", m.path_str()), &v.inner_docs, &m.doc)?;
        expected_docs.extend(m.doc.iter().cloned());
        for (ii, it) in m.items.iter().enumerate() {
            match it {
                Item::Enum(e) => {
                    let ev = v.enm(&e.name).ok_or(("enum-missing".to_string(), e.name.clone()))?;
                    if ev.vis != e.vis {
                        return Err(("visibility".into(), format!("enum {}: pub = {}, declared pub = {}", e.name, ev.vis, e.vis)));
                    }
                    docs_eq(&format!("enum {}", e.name), &ev.attrs.docs, &e.doc)?;
                    expected_docs.extend(e.doc.iter().cloned());
                    check_derives(&format!("enum {}", e.name), &ev.attrs, e.copyable, e.cloneable, e.defaultable)?;
                    for (var, vv) in e.variants.iter().zip(ev.variants.iter()) {
                        if vv.attrs.has_default_attr != var.default {
                            return Err(("default-variant".into(), format!("enum {} variant {}: #[default] = {}, declared = {}", e.name, var.name, vv.attrs.has_default_attr, var.default)));
                        }
                    }
                    if e.singleton.is_some() {
                        if let Some(g) = v.method(&e.name, "get") {
                            if g.vis != e.vis {
                                return Err(("visibility".into(), format!("{}::get: pub = {}, enum pub = {}", e.name, g.vis, e.vis)));
                            }
                        }
                    }
                }
                Item::Type(td) => {
                    let sv = v.strukt(&td.name).ok_or(("struct-missing".to_string(), td.name.clone()))?;
                    if sv.vis != td.vis {
                        return Err(("visibility".into(), format!("struct {}: pub = {}, declared pub = {}", td.name, sv.vis, td.vis)));
                    }
                    docs_eq(&format!("struct {}", td.name), &sv.attrs.docs, &td.doc)?;
                    expected_docs.extend(td.doc.iter().cloned());
                    check_derives(&format!("struct {}", td.name), &sv.attrs, td.copyable, td.cloneable, td.defaultable)?;
                    let has_packed = sv.attrs.repr.iter().any(|r| r == "packed" || r.starts_with("packed("));
                    let has_align = sv.attrs.repr.iter().any(|r| r.starts_with("align("));
                    if !sv.attrs.repr.iter().any(|r| r == "C") {
                        return Err(("repr".into(), format!("struct {}: repr {:?} lacks C", td.name, sv.attrs.repr)));
                    }
                    if td.packed && (!has_packed || has_align) {
                        return Err(("repr-packed".into(), format!("struct {} is packed; repr {:?}", td.name, sv.attrs.repr)));
                    }
                    if !td.packed && (has_packed || !has_align) {
                        return Err(("repr-packed".into(), format!("struct {} is not packed; repr {:?}", td.name, sv.attrs.repr)));
                    }
                    // fields
                    let lay = model.layout(mi, ii).map_err(|_| ("model".to_string(), "stuck".to_string()))?;
                    let mut declared_names = vec![];
                    for (f, fl) in td.fields.iter().zip(lay.fields.iter()) {
                        if f.name == "_" || !fl.emitted {
                            continue;
                        }
                        declared_names.push(f.name.clone());
                        let fv = sv.fields.iter().find(|x| x.name == f.name).ok_or(("field-missing".to_string(), format!("{}.{}", td.name, f.name)))?;
                        if fv.vis != f.vis {
                            return Err(("visibility".into(), format!("field {}.{}: pub = {}, declared pub = {}", td.name, f.name, fv.vis, f.vis)));
                        }
                        docs_eq(&format!("field {}.{}", td.name, f.name), &fv.attrs.docs, &f.doc)?;
                        expected_docs.extend(f.doc.iter().cloned());
                    }
                    for fv in &sv.fields {
                        if !declared_names.contains(&fv.name) {
                            if fv.vis {
                                return Err(("visibility".into(), format!("generated field {}.{} is pub", td.name, fv.name)));
                            }
                            if !fv.attrs.docs.is_empty() {
                                return Err(("doc".into(), format!("generated field {}.{} carries docs {:?}", td.name, fv.name, fv.attrs.docs)));
                            }
                        }
                    }
                    // vftable struct
                    if let Some(vft) = &td.vft {
                        let tv = v.strukt(&format!("{}Vftable", td.name)).ok_or(("vftable-missing".to_string(), td.name.clone()))?;
                        if tv.vis != td.vis {
                            return Err(("visibility".into(), format!("struct {}Vftable: pub = {}, type declared pub = {}", td.name, tv.vis, td.vis)));
                        }
                        let slots = vft_slots(vft);
                        for (idx, fv) in tv.fields.iter().enumerate() {
                            match vft.funcs.iter().zip(slots.slot.iter()).find(|(_, s)| **s == idx as u64) {
                                Some((f, _)) => {
                                    if fv.name != f.name {
                                        return Err(("slot-name".into(), format!("{}Vftable slot {idx} is `{}`, expected `{}`", td.name, fv.name, f.name)));
                                    }
                                    if fv.vis != f.vis {
                                        return Err(("visibility".into(), format!("{}Vftable.{}: pub = {}, declared pub = {}", td.name, f.name, fv.vis, f.vis)));
                                    }
                                    docs_eq(&format!("{}Vftable.{}", td.name, f.name), &fv.attrs.docs, &f.doc)?;
                                    expected_docs.extend(f.doc.iter().cloned());
                                }
                                None => {
                                    if fv.vis {
                                        return Err(("visibility".into(), format!("placeholder slot {}Vftable.{} is pub", td.name, fv.name)));
                                    }
                                    if !fv.attrs.docs.is_empty() {
                                        return Err(("doc".into(), format!("placeholder slot {}Vftable.{} carries docs", td.name, fv.name)));
                                    }
                                }
                            }
                        }
                    }
                    // methods
                    let surf = model.surface(mi, ii);
                    for meth in surf.vfuncs.iter().chain(surf.assoc.iter()) {
                        if meth.name.starts_with('_') {
                            continue;
                        }
                        let mv = v.method(&td.name, &meth.name).ok_or(("method-missing".to_string(), format!("{}::{}", td.name, meth.name)))?;
                        if mv.vis != meth.func.vis {
                            return Err(("visibility".into(), format!("method {}::{}: pub = {}, declared pub = {}", td.name, meth.name, mv.vis, meth.func.vis)));
                        }
                        docs_eq(&format!("method {}::{}", td.name, meth.name), &mv.attrs.docs, &meth.func.doc)?;
                        expected_docs.extend(meth.func.doc.iter().cloned());
                        if matches!(meth.origin, Origin::Forward { .. }) && !meth.func.doc.is_empty() {
                            classes.push("doc-on-inherited-copy".to_string());
                        }
                    }
                    if td.singleton.is_some() {
                        let g = v.method(&td.name, "get").ok_or(("singleton-missing".to_string(), td.name.clone()))?;
                        if g.vis != td.vis {
                            return Err(("visibility".into(), format!("{}::get: pub = {}, type pub = {}", td.name, g.vis, td.vis)));
                        }
                    }
                }
            }
        }
        for ev in &m.ext_vals {
            let fv = v.free_fns.iter().find(|f| f.name == format!("get_{}", ev.name)).ok_or(("accessor-missing".to_string(), ev.name.clone()))?;
            if fv.vis != ev.vis {
                return Err(("visibility".into(), format!("get_{}: pub = {}, declared pub = {}", ev.name, fv.vis, ev.vis)));
            }
        }
        // ... and on no other item: the multiset of doc lines in the file is exactly the expected one
        let mut got: Vec<String> = v.all_docs.iter().filter(|d| d.contains("pv-doc-") || d.is_empty() || crate::genprog::MD_DOC_LINES.contains(&d.as_str())).cloned().collect();
        let mut want: Vec<String> = expected_docs.clone();
        got.sort();
        want.sort();
        if got != want {
            let extra: Vec<&String> = got.iter().filter(|d| !want.contains(d)).collect();
            let missing: Vec<&String> = want.iter().filter(|d| !got.contains(d)).collect();
            return Err((
                "doc-elsewhere".into(),
                format!("{}: doc lines in the file differ from the expected placement; unexpected {extra:?}, missing {missing:?} (counts: got {}, want {})", m.out_path(), got.len(), want.len()),
            ));
        }
    }
    Ok(classes)
}

fn mix_stats(prog: &Prog) -> (bool, bool, usize) {
    // (>=1 private and >=1 public item of the same kind, >=1 derive, doc-carrying items)
    let mut vis_mix = false;
    let mut derive = false;
    let mut docs = 0;
    let mut kinds: std::collections::BTreeMap<&str, (bool, bool)> = Default::default();
    let mut see = |k: &'static str, v: bool| {
        let e = kinds.entry(k).or_insert((false, false));
        if v {
            e.0 = true
        } else {
            e.1 = true
        }
    };
    for m in &prog.mods {
        if !m.doc.is_empty() {
            docs += 1;
        }
        for it in &m.items {
            match it {
                Item::Type(t) => {
                    see("type", t.vis);
                    derive |= t.copyable || t.cloneable || t.defaultable;
                    docs += !t.doc.is_empty() as usize;
                    for f in &t.fields {
                        if f.name != "_" {
                            see("field", f.vis);
                        }
                        docs += !f.doc.is_empty() as usize;
                    }
                    if let Some(v) = &t.vft {
                        for f in &v.funcs {
                            see("vfunc", f.vis);
                            docs += !f.doc.is_empty() as usize;
                        }
                    }
                }
                Item::Enum(e) => {
                    see("enum", e.vis);
                    derive |= e.copyable || e.cloneable || e.defaultable;
                    docs += !e.doc.is_empty() as usize;
                }
            }
        }
        for im in &m.impls {
            for f in &im.funcs {
                see("fn", f.vis);
                docs += !f.doc.is_empty() as usize;
            }
        }
        for ev in &m.ext_vals {
            see("extern", ev.vis);
        }
    }
    for (_, (a, b)) in kinds {
        if a && b {
            vis_mix = true;
        }
    }
    (vis_mix, derive, docs)
}

impl Prop for Faithful {
    type Case = Case;
    crate::prog_shrink!();
    fn name(&self) -> String {
        "C17/faithful".into()
    }
    fn rule(&self) -> String {
        "programs from the rich generator with independent pub/private choices on every type, enum, field, impl function, vfunc, extern value and singleton owner (base fields private only in single-module programs), every accepted subset of {copyable, cloneable, defaultable, packed}, doc comments of 0-3 lines made of unique tokens, empty lines and lines with Markdown meaning (code fences, headings, lists, indented code, links, html) on modules, types, enums, fields, impl functions, vfuncs and, to test 'on no other item', on enum variants and extern values. Oracle (syn view of the output): pub iff declared pub for every counterpart; generated fields (vftable pointer, padding) and placeholder slots private and undocumented; Copy iff copyable, Clone iff copyable or cloneable, Default iff defaultable; repr packed without align iff packed; docs line for line on struct/enum/field/wrapper/slot/re-exposed copies/module inner docs; the multiset of all doc lines in the file equals the expected one. Non-trivial: a pub/private mix within one item kind, >=1 derive, >=2 doc-carrying items".into()
    }
    fn gen(&self, t: &mut Tape) -> Case {
        let w = if t.chance(1, 2) { 8 } else { 4 };
        let mut cfg = GenCfg::rich(w);
        if t.chance(1, 3) {
            cfg.max_mods = 1;
        }
        cfg.max_items = 2 + t.below(10 * crate::driver::scale());
        cfg.backends = false;
        cfg.static_vfuncs = true;
        cfg.alias_types = 4;
        cfg.allow_f20 = true;
        cfg.decorated_gaps = true;
        cfg.vft_base_anywhere = true;
        let (prog, _, _) = gen_prog(t, cfg);
        Case { prog, w }
    }
    fn judge(&self, c: &Case) -> Outcome {
        let res = build_prog(&c.prog, c.w as usize);
        let (vis_mix, derive, docs) = mix_stats(&c.prog);
        match res {
            Res::Panic(p) => Outcome::fail("panic", p),
            Res::Err(e) => Outcome::discard(&format!("rejected: {}", e.chars().filter(|c| !c.is_ascii_digit()).take(40).collect::<String>())),
            Res::Ok(b) => match check_faithful(&c.prog, c.w, &b) {
                Ok(mut classes) => {
                    classes.sort();
                    classes.dedup();
                    if vis_mix {
                        classes.push("vis-mix".into());
                    }
                    if derive {
                        classes.push("derive".into());
                    }
                    classes.push(format!("docs:{}", docs.min(6)));
                    Outcome::pass(vis_mix && derive && docs >= 2).with_classes(classes)
                }
                Err((k, d)) => Outcome::fail(&k, d),
            },
        }
    }
    fn show(&self, c: &Case) -> Value {
        json!({"width": c.w, "pyxis": prog_text(&c.prog)})
    }
}

pub fn props() -> Vec<Box<dyn DynProp>> {
    vec![Box::new(Faithful)]
}

pub fn run(ctx: &mut Ctx) {
    let q = ctx.quick();
    ctx.run(&Faithful, &Params::new(if q { 8_000 } else { 300_000 }, 100, 2500).shrink(300));
}
