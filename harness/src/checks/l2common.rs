//! Shared by the L2 checks (C01, C02, C13, parts of C04/C06/C08): generate a program, build it with
//! pyxis, assemble the crate with probes, ask rustc.

use std::collections::BTreeMap;

use serde::{Deserialize, Serialize};
use serde_json::{json, Value};

use crate::driver::*;
use crate::genprog::*;
use crate::l2::*;
use crate::model::*;
use crate::pipeline::*;
use crate::refmodel::*;
use crate::tape::Tape;

#[derive(Clone, Serialize, Deserialize)]
pub struct Case {
    pub prog: Prog,
    pub w: u64,
}

pub fn show_case(c: &Case) -> Value {
    json!({"width": c.w, "pyxis": prog_text(&c.prog)})
}

#[derive(Clone, Copy, PartialEq)]
pub enum Which {
    Offsets,
    SizeAlign,
    Compile,
}

pub struct Stats {
    pub structs: usize,
    pub named_fields: usize,
    pub explicit_gap: bool,
    pub nested_by_value: bool,
    pub vptr: bool,
    pub packed_misaligned: bool,
    pub bases: bool,
    pub modules: usize,
    pub cross_module: bool,
    pub derives: bool,
    pub items: usize,
    pub used_by_value_odd: bool,
    pub enums: usize,
    pub externs: usize,
}

pub fn features(prog: &Prog, w: u64) -> Stats {
    let mut model = Model::new(prog, w);
    let mut st = Stats {
        structs: 0,
        named_fields: 0,
        explicit_gap: false,
        nested_by_value: false,
        vptr: false,
        packed_misaligned: false,
        bases: false,
        modules: prog.mods.len(),
        cross_module: false,
        derives: false,
        items: 0,
        used_by_value_odd: false,
        enums: 0,
        externs: 0,
    };
    for (mi, m) in prog.mods.iter().enumerate() {
        st.externs += m.ext_types.len();
        for (ii, it) in m.items.iter().enumerate() {
            st.items += 1;
            match it {
                Item::Enum(e) => {
                    st.enums += 1;
                    if e.copyable || e.cloneable || e.defaultable {
                        st.derives = true;
                    }
                }
                Item::Type(td) => {
                    st.structs += 1;
                    if td.copyable || td.cloneable || td.defaultable {
                        st.derives = true;
                    }
                    let Ok(l) = model.layout(mi, ii) else { continue };
                    if l.owns_vptr {
                        st.vptr = true;
                    }
                    let mut cursor = if l.owns_vptr { w } else { 0 };
                    for (f, fl) in td.fields.iter().zip(l.fields.iter()) {
                        if f.name != "_" && fl.emitted {
                            st.named_fields += 1;
                        }
                        if f.addr.is_some() && fl.offset > cursor {
                            st.explicit_gap = true;
                        }
                        if f.base {
                            st.bases = true;
                        }
                        if let Some(n) = f.ty.leaf() {
                            if !f.ty.is_ptr() && !matches!(&f.ty, Ty::Arr(e, _) if e.is_ptr()) {
                                match model.bind(mi, n) {
                                    Some(Bind::Item(bm, _)) | Some(Bind::Ext(bm, _)) => {
                                        st.nested_by_value = true;
                                        if bm != mi {
                                            st.cross_module = true;
                                        }
                                        if let TyRes::Ok { size, align } = model.ty_info(mi, &Ty::Named(n.to_string())) {
                                            if size != w || align != w {
                                                st.used_by_value_odd = true;
                                            }
                                        }
                                    }
                                    _ => {}
                                }
                            }
                        }
                        if td.packed && fl.align > 1 && fl.offset % fl.align != 0 {
                            st.packed_misaligned = true;
                        }
                        cursor = fl.offset + fl.size;
                    }
                }
            }
        }
    }
    st
}

pub struct L2Run {
    pub built: Built,
    pub out: RustcOut,
}

/// Build with pyxis (must be accepted), append the selected probes, run rustc for width `w`.
/// Err(outcome) = discard or failure that ends the judgement early.
pub fn run_l2(prog: &Prog, w: u64, which: Which) -> Result<L2Run, Outcome> {
    if let Err(e) = l2_available() {
        return Err(Outcome::discard(&format!("machinery: {e}")));
    }
    let res = build_prog(prog, w as usize);
    let built = match res {
        Res::Ok(b) => b,
        Res::Err(e) => {
            let key: String = e.chars().filter(|c| !c.is_ascii_digit()).take(60).collect();
            return Err(Outcome::discard(&format!("pyxis-rejects: {key}")));
        }
        Res::Panic(p) => return Err(Outcome::fail("panic", format!("pyxis panicked: {p}"))),
    };
    // C13 is about what `pyxis::build` leaves on disk: take the files from that entry point
    let mut built = built;
    if which == Which::Compile {
        match build_via_lib(&print_prog(prog), w as usize) {
            Res::Ok(b) => built.files = b.files,
            Res::Err(e) => return Err(Outcome::fail("entry-points-disagree", format!("the module set is accepted through add_module/build but pyxis::build on a directory fails: {e}"))),
            Res::Panic(p) => return Err(Outcome::fail("panic", format!("pyxis::build panicked: {p}"))),
        }
    }
    // the crate mirrors the *input* tree: a module without an output file cannot be declared
    if which == Which::Compile {
        for m in &prog.mods {
            if !built.files.contains_key(&m.out_path()) {
                return Err(Outcome::fail(
                    "module-file-missing",
                    format!("module {} has no output file {} (`pub mod` for it would be E0583); files written: {:?}", m.path_str(), m.out_path(), built.files.keys().collect::<Vec<_>>()),
                ));
            }
        }
    }
    let mut model = Model::new(prog, w);
    let mut app = Appendix::new();
    app.supply_extern_types(prog);
    for (mi, m) in prog.mods.iter().enumerate() {
        let file = m.out_path();
        for (ii, it) in m.items.iter().enumerate() {
            let path = format!("{}::{}", m.path_str(), it.name());
            match it {
                Item::Type(td) => {
                    let Ok(l) = model.layout(mi, ii) else {
                        return Err(Outcome::discard("model-stuck"));
                    };
                    if l.reject.is_some() && which == Which::Compile {
                        return Err(Outcome::discard("model-rejects-but-pyxis-accepts"));
                    }
                    // for C01/C02 the statement is conditional on acceptance only: a description pyxis accepts is
                    // judged against the offsets it states even when the reference model would have rejected it
                    match which {
                        Which::Offsets => {
                            for (f, fl) in td.fields.iter().zip(l.fields.iter()) {
                                if f.name == "_" || !fl.emitted {
                                    continue;
                                }
                                app.probe(&file, &format!("offset_of {}.{}", path, f.name), &format!("::core::mem::offset_of!({}, {})", td.name, f.name), fl.offset);
                                // cross-check the model's idea of the field type's size
                                if let Some(src) = model.rust_ty_src(mi, &f.ty) {
                                    app.probe(&file, &format!("size_of type of {}.{}", path, f.name), &format!("::core::mem::size_of::<{src}>()"), fl.size);
                                }
                            }
                        }
                        Which::SizeAlign => {
                            let Some(info) = built.items.get(&path) else {
                                return Err(Outcome::fail("missing-item", format!("{path} not in the registry")));
                            };
                            app.probe(&file, &format!("size_of {path} (resolved)"), &format!("::core::mem::size_of::<{}>()", td.name), info.size as u64);
                            app.probe(&file, &format!("align_of {path} (resolved)"), &format!("::core::mem::align_of::<{}>()", td.name), info.align as u64);
                            if let Some(s) = &td.size {
                                app.probe(&file, &format!("size_of {path} (declared #[size])"), &format!("::core::mem::size_of::<{}>()", td.name), s.u());
                            }
                            if let Some(a) = &td.align {
                                app.probe(&file, &format!("align_of {path} (declared #[align])"), &format!("::core::mem::align_of::<{}>()", td.name), a.u());
                            }
                            if td.packed {
                                app.probe(&file, &format!("align_of {path} (packed)"), &format!("::core::mem::align_of::<{}>()", td.name), 1);
                            }
                            if td.vft.is_some() {
                                let vp = format!("{path}Vftable");
                                if let Some(vi) = built.items.get(&vp) {
                                    app.probe(&file, &format!("size_of {vp} (resolved)"), &format!("::core::mem::size_of::<{}Vftable>()", td.name), vi.size as u64);
                                    app.probe(&file, &format!("align_of {vp} (resolved)"), &format!("::core::mem::align_of::<{}Vftable>()", td.name), vi.align as u64);
                                } else {
                                    return Err(Outcome::fail("missing-item", format!("{vp} not in the registry")));
                                }
                            }
                        }
                        Which::Compile => {}
                    }
                }
                Item::Enum(e) => {
                    if which == Which::SizeAlign {
                        let Some(info) = built.items.get(&path) else {
                            return Err(Outcome::fail("missing-item", format!("{path} not in the registry")));
                        };
                        app.probe(&file, &format!("size_of {path} (resolved)"), &format!("::core::mem::size_of::<{}>()", e.name), info.size as u64);
                        app.probe(&file, &format!("align_of {path} (resolved)"), &format!("::core::mem::align_of::<{}>()", e.name), info.align as u64);
                    }
                }
            }
        }
    }
    let asm = assemble(&built.files, w, app, "", false);
    let out = rustc_check(asm, w);
    if let Some(e) = &out.machinery_error {
        return Err(Outcome::discard(&format!("machinery: {}", e.chars().take(80).collect::<String>())));
    }
    Ok(L2Run { built, out })
}

pub fn diag_summary(errors: &[Diag]) -> String {
    let mut s = String::new();
    for d in errors.iter().take(4) {
        s.push_str(&format!("{}:{} [{}] {}\n{}\n", d.file, d.line, d.code, d.message, d.rendered.lines().take(14).collect::<Vec<_>>().join("\n")));
    }
    if errors.len() > 4 {
        s.push_str(&format!("… and {} more errors\n", errors.len() - 4));
    }
    s
}

/// Perturb an accepted layout program: most results are rejected by pyxis (discarded), the ones it still
/// accepts are judged like any other accepted description.
pub fn perturb_layout(t: &mut Tape, prog: &mut Prog) -> String {
    let mut sites: Vec<(usize, usize)> = vec![];
    for (mi, m) in prog.mods.iter().enumerate() {
        for (ii, it) in m.items.iter().enumerate() {
            if matches!(it, Item::Type(_)) {
                sites.push((mi, ii));
            }
        }
    }
    if sites.is_empty() {
        return "none".into();
    }
    let (mi, ii) = sites[t.below(sites.len() as u64) as usize];
    let kind = t.below(10);
    if kind == 9 {
        // a zero-length array as last member, and whatever made the size a multiple of the alignment gone
        let Item::Type(td) = &mut prog.mods[mi].items[ii] else { unreachable!() };
        while td.fields.last().map(|f| f.name == "_" && matches!(f.ty, Ty::Unk(_))).unwrap_or(false) {
            td.fields.pop();
        }
        td.size = None;
        let el = *t.pick(&["u8", "u16", "u32", "u64"]);
        td.fields.push(Field::new(&format!("tail{}", t.below(1000)), Ty::n(el).arr(0)));
        return "zero-length-tail".into();
    }
    if kind == 8 {
        // a by-value member of a zero-sized, aligned type somewhere in the middle
        let zname = format!("Zs{}", t.below(1000));
        let zt = TypeDef {
            vis: true,
            name: zname.clone(),
            ..Default::default()
        };
        prog.mods[mi].items.push(Item::Type(zt));
        let Item::Type(td) = &mut prog.mods[mi].items[ii] else { unreachable!() };
        let pos = t.below(td.fields.len() as u64 + 1) as usize;
        let mut f = Field::new(&format!("zs{}", t.below(1000)), Ty::Named(zname));
        f.base = t.chance(1, 4);
        td.fields.insert(pos, f);
        return "insert-zero-sized-member".into();
    }
    let Item::Type(td) = &mut prog.mods[mi].items[ii] else { unreachable!() };
    match kind {
        0 => {
            td.align = None;
            "drop-align".into()
        }
        1 => {
            td.align = Some(Num::d(1 << t.below(6)));
            "change-align".into()
        }
        2 => {
            td.size = None;
            "drop-size".into()
        }
        3 | 4 => {
            let with_addr: Vec<usize> = (0..td.fields.len()).filter(|k| td.fields[*k].addr.is_some()).collect();
            if with_addr.is_empty() {
                return "none".into();
            }
            let k = with_addr[t.below(with_addr.len() as u64) as usize];
            if kind == 3 {
                let a = td.fields[k].addr.as_ref().unwrap().v;
                let d = 1 + t.below(8) as i128;
                td.fields[k].addr = Some(Num::d(if t.chance(1, 2) { a + d } else { (a - d).max(0) }));
                "shift-address".into()
            } else {
                td.fields[k].addr = None;
                "drop-address".into()
            }
        }
        5 => {
            if let Some(k) = td.fields.iter().position(|f| f.name == "_" && matches!(f.ty, Ty::Unk(_))) {
                td.fields.remove(k);
                "drop-gap".into()
            } else {
                "none".into()
            }
        }
        6 => {
            td.packed = !td.packed;
            if td.packed {
                td.align = None;
            }
            "toggle-packed".into()
        }
        _ => {
            if td.fields.len() >= 2 {
                let i = t.below(td.fields.len() as u64) as usize;
                let j = t.below(td.fields.len() as u64) as usize;
                let (a, b) = (td.fields[i].addr.clone(), td.fields[j].addr.clone());
                td.fields.swap(i, j);
                td.fields[i].addr = a;
                td.fields[j].addr = b;
                "swap-fields".into()
            } else {
                "none".into()
            }
        }
    }
}

pub fn gen_l2_case(t: &mut Tape, rich: bool) -> Case {
    let w = if t.chance(1, 2) { 8 } else { 4 };
    let mut cfg = if rich { GenCfg::rich(w) } else { GenCfg::layout_only(w) };
    cfg.max_items = 3 + t.below(14 * crate::driver::scale());
    cfg.max_fields = 2 + t.below(10);
    if t.chance(1, 6) {
        cfg.max_gap = 1 << 12;
    }
    // a first base that carries the shared vftable pointer may sit behind a gap
    cfg.vft_base_anywhere = t.chance(1, 3);
    cfg.alias_types = 4;
    let (mut prog, _, _) = gen_prog(t, cfg);
    if !rich && t.chance(1, 3) {
        let n = 1 + t.below(2);
        for _ in 0..n {
            perturb_layout(t, &mut prog);
        }
    }
    Case { prog, w }
}

pub fn count_map(classes: &[String]) -> BTreeMap<String, u64> {
    let mut m = BTreeMap::new();
    for c in classes {
        *m.entry(c.clone()).or_insert(0) += 1;
    }
    m
}
