//! Shared by the L2 checks (C01, C02, C13, parts of C04/C06/C08): generate a program, build it with
//! pyxis, assemble the crate with probes, ask rustc.

use std::collections::BTreeMap;

use serde::{Deserialize, Serialize};
use serde_json::{json, Value};

use crate::driver::*;
use crate::genprog::*;
use crate::l2::*;
use crate::model::*;
use crate::pipeline::*;
use crate::refmodel::*;
use crate::tape::Tape;

#[derive(Clone, Serialize, Deserialize)]
pub struct Case {
    pub prog: Prog,
    pub w: u64,
}

pub fn show_case(c: &Case) -> Value {
    json!({"width": c.w, "pyxis": prog_text(&c.prog)})
}

#[derive(Clone, Copy, PartialEq)]
pub enum Which {
    Offsets,
    SizeAlign,
    Compile,
}

pub struct Stats {
    pub structs: usize,
    pub named_fields: usize,
    pub explicit_gap: bool,
    pub nested_by_value: bool,
    pub vptr: bool,
    pub packed_misaligned: bool,
    pub bases: bool,
    pub modules: usize,
    pub cross_module: bool,
    pub derives: bool,
    pub items: usize,
    pub used_by_value_odd: bool,
    pub enums: usize,
    pub externs: usize,
}

pub fn features(prog: &Prog, w: u64) -> Stats {
    let mut model = Model::new(prog, w);
    let mut st = Stats {
        structs: 0,
        named_fields: 0,
        explicit_gap: false,
        nested_by_value: false,
        vptr: false,
        packed_misaligned: false,
        bases: false,
        modules: prog.mods.len(),
        cross_module: false,
        derives: false,
        items: 0,
        used_by_value_odd: false,
        enums: 0,
        externs: 0,
    };
    for (mi, m) in prog.mods.iter().enumerate() {
        st.externs += m.ext_types.len();
        for (ii, it) in m.items.iter().enumerate() {
            st.items += 1;
            match it {
                Item::Enum(e) => {
                    st.enums += 1;
                    if e.copyable || e.cloneable || e.defaultable {
                        st.derives = true;
                    }
                }
                Item::Type(td) => {
                    st.structs += 1;
                    if td.copyable || td.cloneable || td.defaultable {
                        st.derives = true;
                    }
                    let Ok(l) = model.layout(mi, ii) else { continue };
                    if l.owns_vptr {
                        st.vptr = true;
                    }
                    let mut cursor = if l.owns_vptr { w } else { 0 };
                    for (f, fl) in td.fields.iter().zip(l.fields.iter()) {
                        if f.name != "_" && fl.emitted {
                            st.named_fields += 1;
                        }
                        if f.addr.is_some() && fl.offset > cursor {
                            st.explicit_gap = true;
                        }
                        if f.base {
                            st.bases = true;
                        }
                        if let Some(n) = f.ty.leaf() {
                            if !f.ty.is_ptr() && !matches!(&f.ty, Ty::Arr(e, _) if e.is_ptr()) {
                                match model.bind(mi, n) {
                                    Some(Bind::Item(bm, _)) | Some(Bind::Ext(bm, _)) => {
                                        st.nested_by_value = true;
                                        if bm != mi {
                                            st.cross_module = true;
                                        }
                                        if let TyRes::Ok { size, align } = model.ty_info(mi, &Ty::Named(n.to_string())) {
                                            if size != w || align != w {
                                                st.used_by_value_odd = true;
                                            }
                                        }
                                    }
                                    _ => {}
                                }
                            }
                        }
                        if td.packed && fl.align > 1 && fl.offset % fl.align != 0 {
                            st.packed_misaligned = true;
                        }
                        cursor = fl.offset + fl.size;
                    }
                }
            }
        }
    }
    st
}

pub struct L2Run {
    pub built: Built,
    pub out: RustcOut,
}

/// Build with pyxis (must be accepted), append the selected probes, run rustc for width `w`.
/// Err(outcome) = discard or failure that ends the judgement early.
pub fn run_l2(prog: &Prog, w: u64, which: Which) -> Result<L2Run, Outcome> {
    if let Err(e) = l2_available() {
        return Err(Outcome::discard(&format!("machinery: {e}")));
    }
    let res = build_prog(prog, w as usize);
    let built = match res {
        Res::Ok(b) => b,
        Res::Err(e) => {
            let key: String = e.chars().filter(|c| !c.is_ascii_digit()).take(60).collect();
            return Err(Outcome::discard(&format!("pyxis-rejects: {key}")));
        }
        Res::Panic(p) => return Err(Outcome::fail("panic", format!("pyxis panicked: {p}"))),
    };
    let mut model = Model::new(prog, w);
    let mut app = Appendix::new();
    app.supply_extern_types(prog);
    for (mi, m) in prog.mods.iter().enumerate() {
        let file = m.out_path();
        for (ii, it) in m.items.iter().enumerate() {
            let path = format!("{}::{}", m.path_str(), it.name());
            match it {
                Item::Type(td) => {
                    let Ok(l) = model.layout(mi, ii) else {
                        return Err(Outcome::discard("model-stuck"));
                    };
                    if l.reject.is_some() {
                        return Err(Outcome::discard("model-rejects-but-pyxis-accepts"));
                    }
                    match which {
                        Which::Offsets => {
                            for (f, fl) in td.fields.iter().zip(l.fields.iter()) {
                                if f.name == "_" || !fl.emitted {
                                    continue;
                                }
                                app.probe(&file, &format!("offset_of {}.{}", path, f.name), &format!("::core::mem::offset_of!({}, {})", td.name, f.name), fl.offset);
                                // cross-check the model's idea of the field type's size
                                if let Some(src) = model.rust_ty_src(mi, &f.ty) {
                                    app.probe(&file, &format!("size_of type of {}.{}", path, f.name), &format!("::core::mem::size_of::<{src}>()"), fl.size);
                                }
                            }
                        }
                        Which::SizeAlign => {
                            let Some(info) = built.items.get(&path) else {
                                return Err(Outcome::fail("missing-item", format!("{path} not in the registry")));
                            };
                            app.probe(&file, &format!("size_of {path} (resolved)"), &format!("::core::mem::size_of::<{}>()", td.name), info.size as u64);
                            app.probe(&file, &format!("align_of {path} (resolved)"), &format!("::core::mem::align_of::<{}>()", td.name), info.align as u64);
                            if let Some(s) = &td.size {
                                app.probe(&file, &format!("size_of {path} (declared #[size])"), &format!("::core::mem::size_of::<{}>()", td.name), s.u());
                            }
                            if let Some(a) = &td.align {
                                app.probe(&file, &format!("align_of {path} (declared #[align])"), &format!("::core::mem::align_of::<{}>()", td.name), a.u());
                            }
                            if td.packed {
                                app.probe(&file, &format!("align_of {path} (packed)"), &format!("::core::mem::align_of::<{}>()", td.name), 1);
                            }
                            if td.vft.is_some() {
                                let vp = format!("{path}Vftable");
                                if let Some(vi) = built.items.get(&vp) {
                                    app.probe(&file, &format!("size_of {vp} (resolved)"), &format!("::core::mem::size_of::<{}Vftable>()", td.name), vi.size as u64);
                                    app.probe(&file, &format!("align_of {vp} (resolved)"), &format!("::core::mem::align_of::<{}Vftable>()", td.name), vi.align as u64);
                                } else {
                                    return Err(Outcome::fail("missing-item", format!("{vp} not in the registry")));
                                }
                            }
                        }
                        Which::Compile => {}
                    }
                }
                Item::Enum(e) => {
                    if which == Which::SizeAlign {
                        let Some(info) = built.items.get(&path) else {
                            return Err(Outcome::fail("missing-item", format!("{path} not in the registry")));
                        };
                        app.probe(&file, &format!("size_of {path} (resolved)"), &format!("::core::mem::size_of::<{}>()", e.name), info.size as u64);
                        app.probe(&file, &format!("align_of {path} (resolved)"), &format!("::core::mem::align_of::<{}>()", e.name), info.align as u64);
                    }
                }
            }
        }
    }
    let asm = assemble(&built.files, w, app, "", false);
    let out = rustc_check(asm, w);
    if let Some(e) = &out.machinery_error {
        return Err(Outcome::discard(&format!("machinery: {}", e.chars().take(80).collect::<String>())));
    }
    Ok(L2Run { built, out })
}

pub fn diag_summary(errors: &[Diag]) -> String {
    let mut s = String::new();
    for d in errors.iter().take(4) {
        s.push_str(&format!("{}:{} [{}] {}\n{}\n", d.file, d.line, d.code, d.message, d.rendered.lines().take(14).collect::<Vec<_>>().join("\n")));
    }
    if errors.len() > 4 {
        s.push_str(&format!("… and {} more errors\n", errors.len() - 4));
    }
    s
}

pub fn gen_l2_case(t: &mut Tape, rich: bool) -> Case {
    let w = if t.chance(1, 2) { 8 } else { 4 };
    let mut cfg = if rich { GenCfg::rich(w) } else { GenCfg::layout_only(w) };
    cfg.max_items = 3 + t.below(14);
    cfg.max_fields = 2 + t.below(10);
    if t.chance(1, 6) {
        cfg.max_gap = 1 << 12;
    }
    let (prog, _, _) = gen_prog(t, cfg);
    Case { prog, w }
}

pub fn count_map(classes: &[String]) -> BTreeMap<String, u64> {
    let mut m = BTreeMap::new();
    for c in classes {
        *m.entry(c.clone()).or_insert(0) += 1;
    }
    m
}
