//! C07 — base members are re-exposed on derived types and act on the base sub-object.

use serde_json::Value;

use super::l3common::*;
use crate::driver::*;
use crate::genprog::gen_prog;
use crate::model::*;
use crate::refmodel::*;
use crate::tape::Tape;

pub struct Forwarding;

fn hier_stats(prog: &Prog) -> (usize, usize, usize) {
    // (re-exposed functions, renames, max depth)
    let mut model = Model::new(prog, 8);
    let mut fw = 0;
    let mut renames = 0;
    let mut depth = 0;
    for (mi, m) in prog.mods.iter().enumerate() {
        for (ii, it) in m.items.iter().enumerate() {
            if let Item::Type(_) = it {
                let s = model.surface(mi, ii);
                for meth in &s.assoc {
                    if let Origin::Forward { orig, .. } = &meth.origin {
                        fw += 1;
                        if *orig != meth.name {
                            renames += 1;
                        }
                    }
                }
                fn d(model: &Model, prog: &Prog, mi: usize, ii: usize, guard: usize) -> usize {
                    if guard > 8 {
                        return 0;
                    }
                    let Item::Type(td) = &prog.mods[mi].items[ii] else { return 0 };
                    let mut best = 0;
                    for f in td.fields.iter().filter(|f| f.base) {
                        if let Ty::Named(n) = &f.ty {
                            if let Some(Bind::Item(bm, bi)) = model.bind(mi, n) {
                                best = best.max(1 + d(model, prog, bm, bi, guard + 1));
                            }
                        }
                    }
                    best
                }
                depth = depth.max(d(&model, prog, mi, ii, 0));
            }
        }
    }
    (fw, renames, depth)
}

impl Prop for Forwarding {
    type Case = Case;
    crate::prog_shrink!();
    fn name(&self) -> String {
        "C07/forwarding".into()
    }
    fn rule(&self) -> String {
        "hierarchies (width 8) of depth 1-4 with up to three bases per level, the same base type reachable several times (diamonds), impl functions with unique planted addresses on every level, vftables on non-first bases, public/private mixes; name clashes arise between bases (same function reached through two bases) and are renamed <field>_<name>. The reference model predicts, for every re-exposed function, its name on the derived type and where a call must land. The driver calls `derived.<name>(args)` on a zeroed object. Oracle: exactly one call, in the original function's stub (its address, or the slot of that base's own table installed at the sub-object), receiver = object address + offset of the sub-object along the base path, remaining arguments in order, returned value passed through. Conversions: AsRef/AsMut to every transitive base type occurring once land at the base's offset; for a base type occurring more than once a compile-time probe shows that no AsRef+AsMut impl exists. Non-trivial: >=2 re-exposed functions, or a rename, or depth >=2".into()
    }
    fn gen(&self, t: &mut Tape) -> Case {
        let mut cfg = l3_cfg(t);
        cfg.base_num = 2;
        cfg.vft_num = 2;
        cfg.impls = true;
        cfg.enums = false;
        cfg.ext_vals = false;
        cfg.singletons = false;
        cfg.max_fields = 3;
        // a quarter of the programs are mostly packed types (packed hierarchies, bases at odd offsets)
        if t.chance(1, 4) {
            cfg.packed_den = 2;
        }
        // bases of extern type too (they bring no functions, but the conversions to them are due)
        cfg.extern_bases = true;
        cfg.externs = true;
        let (prog, _, _) = gen_prog(t, cfg);
        Case { prog, seed: t.u64() }
    }
    fn judge(&self, c: &Case) -> Outcome {
        let r = match run_l3(c, &["forward", "asref", "asref_absent"]) {
            Ok(r) => r,
            Err(o) => return o,
        };
        if !r.failures.is_empty() {
            let kind = if r.failures.iter().any(|f| f.starts_with("[forward]")) { "wrong-forward" } else { "wrong-conversion" };
            return Outcome::fail(kind, r.failures.join("\n"));
        }
        let (fw, renames, depth) = hier_stats(&c.prog);
        Outcome::pass(fw >= 2 || renames >= 1 || depth >= 2)
            .class(&format!("forwarded:{}", bucket(fw)))
            .class(&format!("renames:{}", bucket(renames)))
            .class(&format!("depth:{}", depth.min(4)))
            .class(&format!("checked:{}", bucket(r.checked)))
    }
    fn show(&self, c: &Case) -> Value {
        show_case(c)
    }
}

// ------------------------------------------------------------ bases that share a short name (L3)

/// The forwarding programs, every one with two types of different modules under one short name.
pub struct SameShortNames;

impl Prop for SameShortNames {
    type Case = Case;
    crate::prog_shrink!();
    fn name(&self) -> String {
        "C07/same-short-names".into()
    }
    fn rule(&self) -> String {
        "the C07/forwarding programs, in every one of which two struct types of different modules are given one short name (half of the time two types that are direct or transitive bases of one derived type, when there are such). Same driver and oracle as C07/forwarding: re-exposed functions land in the right stub with the right receiver, AsRef/AsMut exist for every base type occurring once (types are told apart by their full path) and for no type occurring twice. Non-trivial as there".into()
    }
    fn gen(&self, t: &mut Tape) -> Case {
        let mut cfg = l3_cfg(t);
        cfg.base_num = 2;
        cfg.vft_num = 2;
        cfg.impls = true;
        cfg.enums = false;
        cfg.ext_vals = false;
        cfg.singletons = false;
        cfg.max_fields = 3;
        cfg.extern_bases = true;
        cfg.externs = true;
        cfg.alias_types = 1;
        let (prog, _, _) = gen_prog(t, cfg);
        Case { prog, seed: t.u64() }
    }
    fn judge(&self, c: &Case) -> Outcome {
        let mut names: Vec<&String> = c.prog.mods.iter().flat_map(|m| m.types().map(|t| &t.name)).collect();
        names.sort();
        let shared = names.windows(2).any(|w| w[0] == w[1]);
        let o = Forwarding.judge(c);
        if shared {
            o.class("two-types-one-short-name")
        } else {
            o
        }
    }
    fn show(&self, c: &Case) -> Value {
        show_case(c)
    }
}

// ------------------------------------------------------------ two base types called the same (L3)

/// `Bottom` derives from `l::Left` and `r::Right`, which derive (directly or through one more level) from
/// `a::Node` and `b::Node`: two different types with one short name, each occurring once below `Bottom`.
pub struct SameNameBases;

fn same_name_case(t: &mut Tape) -> Case {
    let mut next_addr = 0x1000_0000u64;
    let same_fn_name = t.chance(1, 2);
    let mut node_mod = |t: &mut Tape, modname: &str, k: u64| -> Mod {
        let fields = (0..1 + t.below(3)).map(|i| Field::new(&format!("n{k}_{i}"), Ty::n("u64"))).collect();
        let mut m = Mod {
            path: vec![modname.to_string()],
            items: vec![Item::Type(TypeDef {
                vis: true,
                name: "Node".into(),
                fields,
                ..Default::default()
            })],
            ..Default::default()
        };
        if t.chance(2, 3) {
            next_addr += 0x1000;
            m.impls.push(Impl {
                more: vec![],
                ty: "Node".into(),
                funcs: vec![Func {
                    sty: 0,
                    more: vec![],
                    vis: true,
                    name: if same_fn_name { "touch".into() } else { format!("touch{k}") },
                    doc: vec![],
                    args: vec![if t.chance(1, 2) { Arg::ConstSelf } else { Arg::MutSelf }, Arg::Named("x".into(), Ty::n("u32"))],
                    ret: if t.chance(1, 2) { Some(Ty::n("u32")) } else { None },
                    addr: Some(Num::d(next_addr as i128)),
                    index: None,
                    cc: None,
                }],
            });
        }
        m
    };
    let a = node_mod(t, "a", 0);
    let b = node_mod(t, "b", 1);
    // a side: module `side` imports `from::Node` by name and derives `name` from it, sometimes through one more level
    let side = |t: &mut Tape, side: &str, from: &str, name: &str| -> Mod {
        let mut m = Mod {
            path: vec![side.to_string()],
            uses: vec![vec![from.to_string(), "Node".to_string()]],
            ..Default::default()
        };
        let mut base_ty = "Node".to_string();
        if t.chance(1, 3) {
            let mut bf = Field::new("node", Ty::n("Node"));
            bf.base = true;
            m.items.push(Item::Type(TypeDef {
                vis: true,
                name: format!("Mid{name}"),
                fields: vec![bf, Field::new("mid_own", Ty::n("u64"))],
                ..Default::default()
            }));
            base_ty = format!("Mid{name}");
        }
        let mut fields = vec![];
        if t.chance(1, 3) {
            fields.push(Field::new("pre", Ty::n("u64")));
        }
        let mut bf = Field::new(if base_ty == "Node" { "node" } else { "mid" }, Ty::n(&base_ty));
        bf.base = true;
        fields.push(bf);
        for i in 0..t.below(2) {
            fields.push(Field::new(&format!("own{i}"), Ty::n("u64")));
        }
        m.items.push(Item::Type(TypeDef {
            vis: true,
            name: name.to_string(),
            fields,
            ..Default::default()
        }));
        m
    };
    let l = side(t, "l", "a", "Left");
    let r = side(t, "r", "b", "Right");
    let mut lf = Field::new("left", Ty::n("Left"));
    lf.base = true;
    let mut rf = Field::new("right", Ty::n("Right"));
    rf.base = true;
    let mut fields = if t.chance(1, 2) { vec![lf, rf] } else { vec![rf, lf] };
    if t.chance(1, 2) {
        fields.push(Field::new("bottom_own", Ty::n("u64")));
    }
    let bottom = Mod {
        path: vec!["m".into()],
        uses: vec![vec!["l".into(), "Left".into()], vec!["r".into(), "Right".into()]],
        items: vec![Item::Type(TypeDef {
            vis: true,
            name: "Bottom".into(),
            fields,
            ..Default::default()
        })],
        ..Default::default()
    };
    let mut mods = vec![a, b, l, r, bottom];
    // the order in which the modules are handed over
    let k = t.below(mods.len() as u64) as usize;
    mods.rotate_left(k);
    Case { prog: Prog { mods }, seed: t.u64() }
}

impl Prop for SameNameBases {
    type Case = Case;
    crate::prog_shrink!();
    fn name(&self) -> String {
        "C07/same-name-bases".into()
    }
    fn rule(&self) -> String {
        "five modules: a::Node and b::Node (two different types with one short name, each with 1-3 members and usually an address-bound public function, half of the time under the same name), l::Left and r::Right deriving from them by name import, directly or through one more level, with or without a member in front of the base, and m::Bottom deriving from Left and Right in either order. Same driver and oracle as C07/forwarding: every function re-exposed on Left, Right and Bottom (renamed <field>_<name> where two bases bring the same name) lands in its stub with the sub-object as receiver, and AsRef/AsMut from Bottom to a::Node and to b::Node both exist and land at the right offsets (each type occurs once). Every case is non-trivial".into()
    }
    fn gen(&self, t: &mut Tape) -> Case {
        same_name_case(t)
    }
    fn judge(&self, c: &Case) -> Outcome {
        Forwarding.judge(c)
    }
    fn show(&self, c: &Case) -> Value {
        show_case(c)
    }
}

// ------------------------------------------------------------ presence and signature (L1)

pub struct SurfacePresence;

impl Prop for SurfacePresence {
    type Case = crate::checks::l2common::Case;
    crate::prog_shrink!();
    fn name(&self) -> String {
        "C07/surface".into()
    }
    fn rule(&self) -> String {
        "hierarchies from the rich generator at width 4 or 8 with function names drawn from a small shared pool (clashes between bases, between a base function and a derived type's own — also private — virtual function, between vftable and impl functions), any calling convention and parameter types. Oracle (syn view): every function the reference method surface predicts for a derived type — public base functions under their own name or <field>_<name> — exists exactly once in the emitted impl with the declared parameter and return types. Non-trivial: a derived type with >=2 re-exposed functions or a rename".into()
    }
    fn gen(&self, t: &mut Tape) -> Self::Case {
        let w = if t.chance(1, 2) { 8 } else { 4 };
        let mut cfg = crate::genprog::GenCfg::rich(w);
        cfg.base_num = 2;
        cfg.vft_num = 2;
        cfg.max_items = 3 + t.below(10);
        cfg.max_fields = 3;
        cfg.docs = false;
        cfg.backends = false;
        cfg.enums = false;
        cfg.ext_vals = false;
        cfg.alias_types = 4;
        cfg.extern_bases = true;
        let (prog, _, _) = gen_prog(t, cfg);
        crate::checks::l2common::Case { prog, w }
    }
    fn judge(&self, c: &Self::Case) -> Outcome {
        use crate::pipeline::{build_prog, Res};
        let built = match build_prog(&c.prog, c.w as usize) {
            Res::Ok(b) => b,
            Res::Err(e) => return Outcome::discard(&format!("rejected: {}", e.chars().filter(|c| !c.is_ascii_digit()).take(40).collect::<String>())),
            Res::Panic(p) => return Outcome::fail("panic", p),
        };
        let mut model = Model::new(&c.prog, c.w);
        let mut fw = 0;
        let mut renames = 0;
        for (mi, m) in c.prog.mods.iter().enumerate() {
            let v = match crate::rsview::view(&built.files[&m.out_path()]) {
                Ok(v) => v,
                Err(e) => return Outcome::fail("unparsable", e),
            };
            for (ii, it) in m.items.iter().enumerate() {
                let Item::Type(td) = it else { continue };
                let s = model.surface(mi, ii);
                for meth in s.assoc.iter().filter(|x| !matches!(x.origin, Origin::Own) || x.scope_mod != mi || true) {
                    let inherited = match &meth.origin {
                        Origin::Forward { orig, .. } => {
                            fw += 1;
                            if *orig != meth.name {
                                renames += 1;
                            }
                            true
                        }
                        _ => false,
                    };
                    if meth.name.starts_with('_') {
                        continue;
                    }
                    let found: Vec<_> = v.methods.get(&td.name).map(|ms| ms.iter().filter(|x| x.name == meth.name).collect()).unwrap_or_default();
                    if found.len() != 1 {
                        return Outcome::fail(
                            if inherited { "reexposed-missing" } else { "method-missing" },
                            format!("{}::{} ({}): {} definitions in the emitted impl; methods present: {:?}", td.name, meth.name, if inherited { "re-exposed from a base" } else { "own" }, found.len(), v.methods.get(&td.name).map(|ms| ms.iter().map(|x| x.name.clone()).collect::<Vec<_>>())),
                        );
                    }
                    let mv = found[0];
                    let named: Vec<&Ty> = meth.func.args.iter().filter_map(|a| if let Arg::Named(_, t) = a { Some(t) } else { None }).collect();
                    let want: Vec<String> = named.iter().filter_map(|t| model.rust_ty(meth.scope_mod, t)).collect();
                    let got: Vec<String> = mv.args.iter().map(|a| a.1.clone()).collect();
                    let want_ret = meth.func.ret.as_ref().and_then(|t| model.rust_ty(meth.scope_mod, t));
                    if want != got || want_ret != mv.ret || mv.receiver.is_some() != meth.func.has_self() {
                        return Outcome::fail("reexposed-signature", format!("{}::{}: emitted ({:?}) -> {:?}, expected ({:?}) -> {:?}", td.name, meth.name, got, mv.ret, want, want_ret));
                    }
                }
            }
        }
        Outcome::pass(fw >= 2 || renames >= 1).class(&format!("forwarded:{}", bucket(fw))).class(&format!("renames:{}", bucket(renames)))
    }
    fn show(&self, c: &Self::Case) -> Value {
        crate::checks::l2common::show_case(c)
    }
}

pub fn props() -> Vec<Box<dyn DynProp>> {
    vec![Box::new(SurfacePresence), Box::new(Forwarding), Box::new(SameShortNames), Box::new(SameNameBases)]
}

pub fn run(ctx: &mut Ctx) {
    let q = ctx.quick();
    ctx.run(&SurfacePresence, &Params::new(if q { 8000 } else { 300_000 }, 100, 2500).shrink(300));
    ctx.run(&Forwarding, &Params::new(if q { 1500 } else { 50_000 }, 200, 3000).shrink(60));
    ctx.run(&SameShortNames, &Params::new(if q { 400 } else { 10_000 }, 200, 3000).shrink(60));
    ctx.run(&SameNameBases, &Params::new(if q { 200 } else { 5_000 }, 30, 200).shrink(60));
}
