//! C07 — base members are re-exposed on derived types and act on the base sub-object.

use serde_json::Value;

use super::l3common::*;
use crate::driver::*;
use crate::genprog::gen_prog;
use crate::model::*;
use crate::refmodel::*;
use crate::tape::Tape;

pub struct Forwarding;

fn hier_stats(prog: &Prog) -> (usize, usize, usize) {
    // (re-exposed functions, renames, max depth)
    let mut model = Model::new(prog, 8);
    let mut fw = 0;
    let mut renames = 0;
    let mut depth = 0;
    for (mi, m) in prog.mods.iter().enumerate() {
        for (ii, it) in m.items.iter().enumerate() {
            if let Item::Type(_) = it {
                let s = model.surface(mi, ii);
                for meth in &s.assoc {
                    if let Origin::Forward { orig, .. } = &meth.origin {
                        fw += 1;
                        if *orig != meth.name {
                            renames += 1;
                        }
                    }
                }
                fn d(model: &Model, prog: &Prog, mi: usize, ii: usize, guard: usize) -> usize {
                    if guard > 8 {
                        return 0;
                    }
                    let Item::Type(td) = &prog.mods[mi].items[ii] else { return 0 };
                    let mut best = 0;
                    for f in td.fields.iter().filter(|f| f.base) {
                        if let Ty::Named(n) = &f.ty {
                            if let Some(Bind::Item(bm, bi)) = model.bind(mi, n) {
                                best = best.max(1 + d(model, prog, bm, bi, guard + 1));
                            }
                        }
                    }
                    best
                }
                depth = depth.max(d(&model, prog, mi, ii, 0));
            }
        }
    }
    (fw, renames, depth)
}

impl Prop for Forwarding {
    type Case = Case;
    crate::prog_shrink!();
    fn name(&self) -> String {
        "C07/forwarding".into()
    }
    fn rule(&self) -> String {
        "hierarchies (width 8) of depth 1-4 with up to three bases per level, the same base type reachable several times (diamonds), impl functions with unique planted addresses on every level, vftables on non-first bases, public/private mixes; name clashes arise between bases (same function reached through two bases) and are renamed <field>_<name>. The reference model predicts, for every re-exposed function, its name on the derived type and where a call must land. The driver calls `derived.<name>(args)` on a zeroed object. Oracle: exactly one call, in the original function's stub (its address, or the slot of that base's own table installed at the sub-object), receiver = object address + offset of the sub-object along the base path, remaining arguments in order, returned value passed through. Conversions: AsRef/AsMut to every transitive base type occurring once land at the base's offset; for a base type occurring more than once a compile-time probe shows that no AsRef+AsMut impl exists. Non-trivial: >=2 re-exposed functions, or a rename, or depth >=2".into()
    }
    fn gen(&self, t: &mut Tape) -> Case {
        let mut cfg = l3_cfg(t);
        cfg.base_num = 2;
        cfg.vft_num = 2;
        cfg.impls = true;
        cfg.enums = false;
        cfg.ext_vals = false;
        cfg.singletons = false;
        cfg.max_fields = 3;
        // a quarter of the programs are mostly packed types (packed hierarchies, bases at odd offsets)
        if t.chance(1, 4) {
            cfg.packed_den = 2;
        }
        // bases of extern type too (they bring no functions, but the conversions to them are due)
        cfg.extern_bases = true;
        cfg.externs = true;
        let (prog, _, _) = gen_prog(t, cfg);
        Case { prog, seed: t.u64() }
    }
    fn judge(&self, c: &Case) -> Outcome {
        let r = match run_l3(c, &["forward", "asref", "asref_absent"]) {
            Ok(r) => r,
            Err(o) => return o,
        };
        if !r.failures.is_empty() {
            let kind = if r.failures.iter().any(|f| f.starts_with("[forward]")) { "wrong-forward" } else { "wrong-conversion" };
            return Outcome::fail(kind, r.failures.join("\n"));
        }
        let (fw, renames, depth) = hier_stats(&c.prog);
        Outcome::pass(fw >= 2 || renames >= 1 || depth >= 2)
            .class(&format!("forwarded:{}", bucket(fw)))
            .class(&format!("renames:{}", bucket(renames)))
            .class(&format!("depth:{}", depth.min(4)))
            .class(&format!("checked:{}", bucket(r.checked)))
    }
    fn show(&self, c: &Case) -> Value {
        show_case(c)
    }
}

// ------------------------------------------------------------ presence and signature (L1)

pub struct SurfacePresence;

impl Prop for SurfacePresence {
    type Case = crate::checks::l2common::Case;
    crate::prog_shrink!();
    fn name(&self) -> String {
        "C07/surface".into()
    }
    fn rule(&self) -> String {
        "hierarchies from the rich generator at width 4 or 8 with function names drawn from a small shared pool (clashes between bases, between a base function and a derived type's own — also private — virtual function, between vftable and impl functions), any calling convention and parameter types. Oracle (syn view): every function the reference method surface predicts for a derived type — public base functions under their own name or <field>_<name> — exists exactly once in the emitted impl with the declared parameter and return types. Non-trivial: a derived type with >=2 re-exposed functions or a rename".into()
    }
    fn gen(&self, t: &mut Tape) -> Self::Case {
        let w = if t.chance(1, 2) { 8 } else { 4 };
        let mut cfg = crate::genprog::GenCfg::rich(w);
        cfg.base_num = 2;
        cfg.vft_num = 2;
        cfg.max_items = 3 + t.below(10);
        cfg.max_fields = 3;
        cfg.docs = false;
        cfg.backends = false;
        cfg.enums = false;
        cfg.ext_vals = false;
        cfg.alias_types = 4;
        cfg.extern_bases = true;
        let (prog, _, _) = gen_prog(t, cfg);
        crate::checks::l2common::Case { prog, w }
    }
    fn judge(&self, c: &Self::Case) -> Outcome {
        use crate::pipeline::{build_prog, Res};
        let built = match build_prog(&c.prog, c.w as usize) {
            Res::Ok(b) => b,
            Res::Err(e) => return Outcome::discard(&format!("rejected: {}", e.chars().filter(|c| !c.is_ascii_digit()).take(40).collect::<String>())),
            Res::Panic(p) => return Outcome::fail("panic", p),
        };
        let mut model = Model::new(&c.prog, c.w);
        let mut fw = 0;
        let mut renames = 0;
        for (mi, m) in c.prog.mods.iter().enumerate() {
            let v = match crate::rsview::view(&built.files[&m.out_path()]) {
                Ok(v) => v,
                Err(e) => return Outcome::fail("unparsable", e),
            };
            for (ii, it) in m.items.iter().enumerate() {
                let Item::Type(td) = it else { continue };
                let s = model.surface(mi, ii);
                for meth in s.assoc.iter().filter(|x| !matches!(x.origin, Origin::Own) || x.scope_mod != mi || true) {
                    let inherited = match &meth.origin {
                        Origin::Forward { orig, .. } => {
                            fw += 1;
                            if *orig != meth.name {
                                renames += 1;
                            }
                            true
                        }
                        _ => false,
                    };
                    if meth.name.starts_with('_') {
                        continue;
                    }
                    let found: Vec<_> = v.methods.get(&td.name).map(|ms| ms.iter().filter(|x| x.name == meth.name).collect()).unwrap_or_default();
                    if found.len() != 1 {
                        return Outcome::fail(
                            if inherited { "reexposed-missing" } else { "method-missing" },
                            format!("{}::{} ({}): {} definitions in the emitted impl; methods present: {:?}", td.name, meth.name, if inherited { "re-exposed from a base" } else { "own" }, found.len(), v.methods.get(&td.name).map(|ms| ms.iter().map(|x| x.name.clone()).collect::<Vec<_>>())),
                        );
                    }
                    let mv = found[0];
                    let named: Vec<&Ty> = meth.func.args.iter().filter_map(|a| if let Arg::Named(_, t) = a { Some(t) } else { None }).collect();
                    let want: Vec<String> = named.iter().filter_map(|t| model.rust_ty(meth.scope_mod, t)).collect();
                    let got: Vec<String> = mv.args.iter().map(|a| a.1.clone()).collect();
                    let want_ret = meth.func.ret.as_ref().and_then(|t| model.rust_ty(meth.scope_mod, t));
                    if want != got || want_ret != mv.ret || mv.receiver.is_some() != meth.func.has_self() {
                        return Outcome::fail("reexposed-signature", format!("{}::{}: emitted ({:?}) -> {:?}, expected ({:?}) -> {:?}", td.name, meth.name, got, mv.ret, want, want_ret));
                    }
                }
            }
        }
        Outcome::pass(fw >= 2 || renames >= 1).class(&format!("forwarded:{}", bucket(fw))).class(&format!("renames:{}", bucket(renames)))
    }
    fn show(&self, c: &Self::Case) -> Value {
        crate::checks::l2common::show_case(c)
    }
}

pub fn props() -> Vec<Box<dyn DynProp>> {
    vec![Box::new(SurfacePresence), Box::new(Forwarding)]
}

pub fn run(ctx: &mut Ctx) {
    let q = ctx.quick();
    ctx.run(&SurfacePresence, &Params::new(if q { 8000 } else { 300_000 }, 100, 2500).shrink(300));
    ctx.run(&Forwarding, &Params::new(if q { 1500 } else { 50_000 }, 200, 3000).shrink(60));
}
