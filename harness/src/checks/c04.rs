//! C04 — virtual-call wrappers dispatch through the declared vftable slot.

use serde::{Deserialize, Serialize};
use serde_json::{json, Value};

use super::l2common as l2c;
use super::l3common::*;
use crate::driver::*;
use crate::genprog::{gen_prog, GenCfg};
use crate::l2::*;
use crate::model::*;
use crate::pipeline::*;
use crate::refmodel::*;
use crate::tape::Tape;

// ------------------------------------------------------------ dispatch (L3)

pub struct Dispatch;
impl Prop for Dispatch {
    type Case = Case;
    crate::prog_shrink!();
    fn name(&self) -> String {
        "C04/dispatch".into()
    }
    fn rule(&self) -> String {
        "programs (width 8) with types that own or inherit a vftable (0-4 added functions per block, index gaps, declared sizes, &self/&mut self, 0-6 integer/pointer parameters, optional return). The driver fills a fake table with one recording trampoline per slot (id = table base + slot), stores its address at offset 0 of a zeroed object and calls every emitted vfunc wrapper, then repeats with a second table (other ids). Oracle: exactly one call per invocation, stub id = the function's slot in the table currently installed, first argument = object address, then the arguments in declared order (masked), returned value = the stub's. Non-trivial: >=1 executed call on a function with >=2 parameters, an index gap, or an inherited slot".into()
    }
    fn gen(&self, t: &mut Tape) -> Case {
        let mut cfg = l3_cfg(t);
        cfg.impls = t.chance(1, 3);
        cfg.vft_num = 3;
        cfg.base_num = 2;
        cfg.enums = false;
        cfg.ext_vals = false;
        cfg.singletons = false;
        if t.chance(1, 4) {
            cfg.packed_den = 2;
        }
        cfg.big_vft_gaps = true;
        let (mut prog, _, _) = gen_prog(t, cfg);
        if t.chance(1, 5) {
            name_member_vftable(t, &mut prog);
        }
        Case { prog, seed: t.u64() }
    }
    fn judge(&self, c: &Case) -> Outcome {
        let r = match run_l3(c, &["vfunc"]) {
            Ok(r) => r,
            Err(o) => return o,
        };
        if !r.failures.is_empty() {
            return Outcome::fail("wrong-dispatch", r.failures.join("\n"));
        }
        let rich = c.prog.mods.iter().any(|m| m.types().any(|t| t.vft.as_ref().map(|v| v.funcs.iter().any(|f| f.args.len() >= 3 || f.index.is_some())).unwrap_or(false) || (t.vft.is_none() && t.fields.iter().any(|f| f.base))));
        Outcome::pass(r.checked >= 1 && rich).class(&format!("calls:{}", bucket(r.checked)))
    }
    fn show(&self, c: &Case) -> Value {
        show_case(c)
    }
}

// ------------------------------------------------------------ table layout (L2)

pub struct TableLayout;
impl Prop for TableLayout {
    type Case = l2c::Case;
    crate::prog_shrink!();
    fn name(&self) -> String {
        "C04/table-layout".into()
    }
    fn rule(&self) -> String {
        "programs with vftable blocks (any increasing index pattern, declared table sizes, derived blocks extending a base table) for width 4 and 8; rustc probes on the emitted <T>Vftable: offset_of!(name) == slot * width for every declared function, offset_of!(_vfunc_N) == N * width for every placeholder, size_of == table length * width. Non-trivial: >=2 functions and an index gap or a declared size larger than needed".into()
    }
    fn gen(&self, t: &mut Tape) -> l2c::Case {
        let w = if t.chance(1, 2) { 8 } else { 4 };
        let mut cfg = GenCfg::layout_only(w);
        cfg.max_items = 2 + t.below(8);
        cfg.max_fields = 3;
        cfg.vft_num = 3;
        cfg.base_num = 2;
        // doc comments before, after and between the attributes of a virtual function
        cfg.docs = true;
        cfg.big_vft_gaps = true;
        let (prog, _, _) = gen_prog(t, cfg);
        l2c::Case { prog, w }
    }
    fn judge(&self, c: &l2c::Case) -> Outcome {
        if let Err(e) = l2_available() {
            return Outcome::discard(&format!("machinery: {e}"));
        }
        let built = match build_prog(&c.prog, c.w as usize) {
            Res::Ok(b) => b,
            Res::Err(_) => return Outcome::discard("pyxis-rejects"),
            Res::Panic(p) => return Outcome::fail("panic", p),
        };
        let mut app = Appendix::new();
        app.supply_extern_types(&c.prog);
        let mut n_tables = 0;
        let mut interesting = false;
        for m in &c.prog.mods {
            let file = m.out_path();
            for td in m.types() {
                let Some(v) = &td.vft else { continue };
                n_tables += 1;
                let s = vft_slots(v);
                let natural = s.slot.last().map(|x| x + 1).unwrap_or(0);
                if v.funcs.len() >= 2 && (s.len > natural || s.slot.iter().enumerate().any(|(i, x)| *x != i as u64)) {
                    interesting = true;
                }
                let tname = format!("{}Vftable", td.name);
                let mut declared = std::collections::BTreeMap::new();
                for (f, slot) in v.funcs.iter().zip(s.slot.iter()) {
                    declared.insert(*slot, f.name.clone());
                }
                for idx in 0..s.len {
                    let fname = declared.get(&idx).cloned().unwrap_or_else(|| format!("_vfunc_{idx}"));
                    app.probe(&file, &format!("offset_of {tname}.{fname} (slot {idx})"), &format!("::core::mem::offset_of!({tname}, {fname})"), idx * c.w);
                }
                app.probe(&file, &format!("size_of {tname} ({} slots)", s.len), &format!("::core::mem::size_of::<{tname}>()"), s.len * c.w);
            }
        }
        if n_tables == 0 {
            return Outcome::discard("no-vftable-in-program");
        }
        let out = rustc_check(assemble(&built.files, c.w, app, "", false), c.w);
        if let Some(e) = &out.machinery_error {
            return Outcome::discard(&format!("machinery: {}", e.chars().take(80).collect::<String>()));
        }
        let bad: Vec<_> = out.probes.iter().filter(|p| p.found.is_some()).collect();
        if !bad.is_empty() {
            let d: Vec<String> = bad.iter().take(6).map(|p| format!("{}: expected {}, rustc says {:?}", p.label, p.expected, p.found)).collect();
            return Outcome::fail("slot-offset", d.join("\n"));
        }
        if !out.errors.is_empty() {
            return Outcome::discard("crate-does-not-compile (C13's business)");
        }
        Outcome::pass(interesting).class(&format!("width:{}", c.w))
    }
    fn show(&self, c: &l2c::Case) -> Value {
        l2c::show_case(c)
    }
}

// ------------------------------------------------------------ contradictions (L0)

#[derive(Clone, Serialize, Deserialize)]
pub struct ContraCase {
    pub vft: Vft,
    pub w: u64,
}
pub struct Contradictions;
impl Prop for Contradictions {
    type Case = ContraCase;
    fn name(&self) -> String {
        "C04/contradictions".into()
    }
    fn rule(&self) -> String {
        "a single vftable block with 1-6 functions whose #[index] values are drawn around the running position (lower, equal, next, higher) and an optional table #[size] around the natural length. Oracle: the build is Ok iff no index lies below the position reached and the size is not smaller than the number of slots needed (reference slot model), and then the resolved table size is length * width. Non-trivial: >=2 functions with >=1 index or a size".into()
    }
    fn gen(&self, t: &mut Tape) -> ContraCase {
        let n = 1 + t.below(6);
        let mut funcs = vec![];
        let mut next: i64 = 0;
        for k in 0..n {
            let index = match t.below(8) {
                0..=2 => None,
                3 => Some(next),
                4 => Some(next + 1 + t.below(3) as i64),
                5 => Some((next - 1 - t.below(3) as i64).max(0)),
                6 => Some(0),
                _ => Some(t.below(12) as i64),
            };
            let slot = match index {
                Some(i) if i >= next => i,
                _ => next,
            };
            next = slot + 1;
            funcs.push(Func {
                more: vec![],
                sty: 0,
                vis: true,
                name: format!("vf{k}"),
                doc: vec![],
                args: vec![Arg::MutSelf],
                ret: None,
                addr: None,
                index: index.map(|i| Num::d(i as i128)),
                cc: None,
            });
        }
        let size = match t.below(6) {
            0..=2 => None,
            3 => Some(next),
            4 => Some(next + 1 + t.below(4) as i64),
            _ => Some((next - 1 - t.below(3) as i64).max(0)),
        };
        ContraCase {
            vft: Vft {
                size: size.map(|s| Num::d(s as i128)),
                funcs,
            },
            w: if t.chance(1, 2) { 8 } else { 4 },
        }
    }
    fn judge(&self, c: &ContraCase) -> Outcome {
        let prog = Prog {
            mods: vec![Mod {
                path: vec!["m".into()],
                items: vec![Item::Type(TypeDef {
                    vis: true,
                    name: "T".into(),
                    vft: Some(c.vft.clone()),
                    ..Default::default()
                })],
                ..Default::default()
            }],
        };
        let s = vft_slots(&c.vft);
        let res = build_mem(&print_prog(&prog), c.w as usize, &MemOpts { emit: false, ..Default::default() });
        let nontrivial = c.vft.funcs.len() >= 2 && (c.vft.size.is_some() || c.vft.funcs.iter().any(|f| f.index.is_some()));
        match (&res, s.contradiction) {
            (Res::Panic(p), _) => Outcome::fail("panic", p.clone()),
            (Res::Err(_), true) => Outcome::pass(nontrivial).class("rejected"),
            (Res::Ok(b), false) => {
                let got = b.items.get("m::TVftable").map(|i| i.size as u64);
                if got == Some(s.len * c.w) {
                    Outcome::pass(nontrivial).class("accepted")
                } else {
                    Outcome::fail("table-size", format!("table should have {} slots ({} bytes), pyxis resolved {got:?} bytes", s.len, s.len * c.w))
                }
            }
            (Res::Ok(_), true) => Outcome::fail("contradiction-accepted", format!("an index below the running position or a size smaller than the table was accepted (slots by the model: {:?}, length {})", s.slot, s.len)),
            (Res::Err(e), false) => Outcome::fail("spurious-reject", e.clone()),
        }
    }
    fn show(&self, c: &ContraCase) -> Value {
        let mut s = String::new();
        print_type(
            &mut s,
            &TypeDef {
                vis: true,
                name: "T".into(),
                vft: Some(c.vft.clone()),
                ..Default::default()
            },
        );
        json!({"width": c.w, "pyxis": s})
    }
}

// ------------------------------------------------------------ contradictions against an inherited table

/// A derived block whose indices or size contradict the positions of the table it inherits.
pub struct InheritedTable;
impl Prop for InheritedTable {
    type Case = crate::checks::c06::VerdictCase;
    crate::prog_shrink!();
    fn name(&self) -> String {
        "C04/inherited-table".into()
    }
    fn rule(&self) -> String {
        "inheritance chains (the C06 generator) whose last level restates the inherited table faithfully, or with its last function missing under a restated size (an unnamed slot where the base has a function), or with its last function moved one slot further by an #[index]. Oracle: an index or size that contradicts the positions of the inherited table is an error; the faithful block is accepted. Every case is non-trivial".into()
    }
    fn gen(&self, t: &mut Tape) -> Self::Case {
        let force = *t.pick(&[7u64, 11, 11, 0]);
        crate::checks::c06::gen_verdict_case_with(t, Some(force))
    }
    fn judge(&self, c: &Self::Case) -> Outcome {
        crate::checks::c06::Verdict_.judge(c)
    }
    fn show(&self, c: &Self::Case) -> Value {
        crate::checks::c06::Verdict_.show(c)
    }
}

pub fn props() -> Vec<Box<dyn DynProp>> {
    vec![Box::new(Contradictions), Box::new(TableLayout), Box::new(Dispatch), Box::new(InheritedTable)]
}

pub fn run(ctx: &mut Ctx) {
    let q = ctx.quick();
    ctx.run(&Contradictions, &Params::new(if q { 20_000 } else { 400_000 }, 10, 60));
    ctx.run(&InheritedTable, &Params::new(if q { 10_000 } else { 200_000 }, 30, 300));
    ctx.run(&TableLayout, &Params::new(if q { 3000 } else { 80_000 }, 100, 2000).shrink(100));
    ctx.run(&Dispatch, &Params::new(if q { 1200 } else { 40_000 }, 200, 3000).shrink(60));
}
