//! C13 — the emitted files form a crate that type-checks.

use serde_json::Value;

use super::l2common::*;
use crate::driver::*;
use crate::refmodel::Model;
use crate::tape::Tape;

pub struct TypeChecks;

pub fn other_width_ok(c: &Case) -> bool {
    let w2 = if c.w == 4 { 8 } else { 4 };
    if w2 == 4 {
        // a program written for a 64-bit target may name addresses / discriminants a 32-bit target cannot hold
        use crate::model::Item;
        for m in &c.prog.mods {
            for ev in &m.ext_vals {
                if ev.addr.as_ref().map(|a| a.v > u32::MAX as i128).unwrap_or(false) {
                    return false;
                }
            }
            for im in &m.impls {
                for f in &im.funcs {
                    if f.addr.as_ref().map(|a| a.v > u32::MAX as i128).unwrap_or(false) {
                        return false;
                    }
                }
            }
            for it in &m.items {
                match it {
                    Item::Type(t) => {
                        if t.singleton.as_ref().map(|a| a.v > u32::MAX as i128).unwrap_or(false) {
                            return false;
                        }
                    }
                    Item::Enum(e) => {
                        if e.singleton.as_ref().map(|a| a.v > u32::MAX as i128).unwrap_or(false) {
                            return false;
                        }
                        let mut next: i128 = 0;
                        for v in &e.variants {
                            let val = v.value.as_ref().map(|n| n.v).unwrap_or(next);
                            if val > i32::MAX as i128 || val < i32::MIN as i128 {
                                return false;
                            }
                            next = val + 1;
                        }
                    }
                }
            }
        }
    }
    let mut model = Model::new(&c.prog, w2);
    for (mi, m) in c.prog.mods.iter().enumerate() {
        for (ii, it) in m.items.iter().enumerate() {
            if let crate::model::Item::Type(_) = it {
                match model.layout(mi, ii) {
                    Ok(l) if l.reject.is_none() => {}
                    _ => return false,
                }
            }
        }
    }
    true
}

impl Prop for TypeChecks {
    type Case = Case;
    crate::prog_shrink!();
    fn name(&self) -> String {
        "C13/type-checks".into()
    }
    fn rule(&self) -> String {
        "the rich generator (multi-module, nested directories, hierarchies across modules, enums, extern types/values, singletons, impl and vftable functions over all calling conventions, marker attributes where satisfiable, docs, prologues/epilogues with valid Rust items) within the documented fragment; every output file must parse with syn on its own, and the crate (files declared as modules mirroring the input tree, extern types supplied) must type-check: width 8 with stable rustc on the host after normalising the ABI strings, width 4 unmodified for i686-pc-windows-msvc (nightly, core only); when the program is also valid at the other width it is checked there too. Non-trivial: (>=2 modules with a cross-module by-value reference, or a hierarchy, or >=1 derive) and >=5 items".into()
    }
    fn gen(&self, t: &mut Tape) -> Case {
        gen_l2_case(t, true)
    }
    fn judge(&self, c: &Case) -> Outcome {
        let st = features(&c.prog, c.w);
        let mut widths = vec![c.w];
        if other_width_ok(c) {
            widths.push(if c.w == 4 { 8 } else { 4 });
        }
        let mut classes = vec![];
        for w in widths.iter().copied() {
            let run = match run_l2(&c.prog, w, Which::Compile) {
                Ok(r) => r,
                Err(o) => {
                    if w == c.w {
                        return o;
                    }
                    // the other width is only a bonus; pyxis may legitimately reject there
                    continue;
                }
            };
            for (p, text) in &run.built.files {
                if let Err(e) = syn::parse_file(text) {
                    return Outcome::fail("output-not-rust", format!("{p}: {e}"));
                }
            }
            if !run.out.errors.is_empty() {
                let codes: Vec<String> = {
                    let mut v: Vec<String> = run.out.errors.iter().map(|d| d.code.clone()).collect();
                    v.sort();
                    v.dedup();
                    v
                };
                return Outcome::fail(&format!("rustc-error:{}", codes.join("+")), format!("width {w}:\n{}", diag_summary(&run.out.errors)));
            }
            classes.push(format!("checked-width:{w}"));
        }
        let nontrivial = ((st.modules >= 2 && st.cross_module) || st.bases || st.derives) && st.items >= 5;
        let mut o = Outcome::pass(nontrivial).with_classes(classes);
        for (k, v) in [("derives", st.derives), ("bases", st.bases), ("cross_module", st.cross_module), ("enums", st.enums > 0), ("externs", st.externs > 0), ("vptr", st.vptr)] {
            if v {
                o = o.class(k);
            }
        }
        o
    }
    fn show(&self, c: &Case) -> Value {
        show_case(c)
    }
}

// ------------------------------------------------------------ name clashes

/// Programs in which names collide; whatever pyxis accepts must still type-check.
pub struct NameClashes;

impl Prop for NameClashes {
    type Case = Case;
    crate::prog_shrink!();
    fn name(&self) -> String {
        "C13/name-clashes".into()
    }
    fn rule(&self) -> String {
        "small programs from the rich generator with one or two name-clash perturbations: a second function of the same name in one impl block (same signature or an overload), a derived type re-declaring an inherited impl/virtual function with its own address, two fields / enum cases / parameters / virtual functions of one name in one item, an enum over a non-integer base (bool, float, void, a user or extern type), and a field, impl function, virtual function, case, parameter or extern value renamed to a name already used elsewhere in the program or generated by the backend (vftable, get, as_ref, _vfunc_N, _field_N, <T>Vftable, get_<extern>, <field>_<name>, ...). The reference model is not consulted: when pyxis rejects, the case is discarded; when it accepts, every output file must parse and the crate must type-check (as in C13/type-checks). Non-trivial: pyxis accepted a perturbed program".into()
    }
    fn gen(&self, t: &mut Tape) -> Case {
        let w = if t.chance(1, 2) { 8 } else { 4 };
        let mut cfg = crate::genprog::GenCfg::rich(w);
        cfg.max_items = 2 + t.below(6);
        cfg.max_fields = 1 + t.below(5);
        cfg.max_mods = 2;
        cfg.backends = false;
        cfg.vft_num = 2;
        cfg.base_num = 2;
        cfg.clashes = 1;
        let (prog, _, _) = crate::genprog::gen_prog(t, cfg);
        Case { prog, w }
    }
    fn judge(&self, c: &Case) -> Outcome {
        let run = match run_l2(&c.prog, c.w, Which::Compile) {
            Ok(r) => r,
            Err(o) => return o,
        };
        for (p, text) in &run.built.files {
            if let Err(e) = syn::parse_file(text) {
                return Outcome::fail("output-not-rust", format!("{p}: {e}"));
            }
        }
        if !run.out.errors.is_empty() {
            let mut codes: Vec<String> = run.out.errors.iter().map(|d| d.code.clone()).collect();
            codes.sort();
            codes.dedup();
            return Outcome::fail(&format!("rustc-error:{}", codes.join("+")), format!("width {}:\n{}", c.w, diag_summary(&run.out.errors)));
        }
        Outcome::pass(true).class(&format!("checked-width:{}", c.w))
    }
    fn show(&self, c: &Case) -> Value {
        show_case(c)
    }
}

pub fn props() -> Vec<Box<dyn DynProp>> {
    vec![Box::new(TypeChecks), Box::new(NameClashes)]
}

pub fn run(ctx: &mut Ctx) {
    let q = ctx.quick();
    ctx.run(&TypeChecks, &Params::new(if q { 4000 } else { 120_000 }, 200, 3000).shrink(150));
    ctx.run(&NameClashes, &Params::new(if q { 4000 } else { 120_000 }, 100, 1200).shrink(150));
}
