//! C20 — equivalent descriptions produce identical bindings (metamorphic).

use std::collections::BTreeSet;

use serde::{Deserialize, Serialize};
use serde_json::{json, Value};

use crate::driver::*;
use crate::genprog::*;
use crate::model::*;
use crate::pipeline::*;
use crate::refmodel::*;
use crate::tape::{Mix, Tape};

#[derive(Clone, Serialize, Deserialize)]
pub struct Case {
    pub prog: Prog,
    pub w: u64,
    pub seed: u64,
    /// restrict to one rewrite kind (None = any combination)
    pub only: Option<String>,
}

pub const KINDS: &[&str] = &["explicit-address", "drop-address", "gap-to-address", "address-to-gap", "add-size", "add-index", "explicit-enum-value", "respell", "permute-items"];

fn respell(n: &mut Num, mix: &mut Mix) {
    n.sp = mix.below(6) as u8;
}

/// Apply semantics-preserving rewrites. Returns the rewritten program and the kinds applied.
pub fn rewrite(prog: &Prog, w: u64, seed: u64, only: Option<&str>) -> (Prog, BTreeSet<String>) {
    let mut mix = Mix(seed);
    let mut out = prog.clone();
    let mut applied = BTreeSet::new();
    let want = |k: &str, mix: &mut Mix| -> bool {
        match only {
            Some(o) => o == k,
            None => mix.chance(1, 2),
        }
    };
    let mut model = Model::new(prog, w);
    for (mi, m) in prog.mods.iter().enumerate() {
        for (ii, it) in m.items.iter().enumerate() {
            match it {
                Item::Type(td) => {
                    let Ok(l) = model.layout(mi, ii) else { continue };
                    if l.reject.is_some() {
                        continue;
                    }
                    let Item::Type(otd) = &mut out.mods[mi].items[ii] else { unreachable!() };
                    // walk the fields, building the new list
                    let mut new_fields: Vec<Field> = vec![];
                    let mut cursor = if l.owns_vptr { w } else { 0 };
                    let n = td.fields.len();
                    let mut k = 0;
                    while k < n {
                        let f = &td.fields[k];
                        let fl = &l.fields[k];
                        let mut nf = f.clone();
                        // gap field followed by another field -> address on the following field
                        let is_gap_field = f.name == "_" && matches!(f.ty, Ty::Unk(_)) && f.addr.is_none() && f.doc.is_empty() && !f.base;
                        if is_gap_field && fl.size > 0 && k + 1 < n && want("gap-to-address", &mut mix) {
                            let next = &td.fields[k + 1];
                            let nl = &l.fields[k + 1];
                            // only when the next field sits directly after the gap and is a real (emitted) field
                            if nl.offset == fl.offset + fl.size && nl.emitted && !(next.name == "_" && matches!(next.ty, Ty::Unk(_))) {
                                applied.insert("gap-to-address".to_string());
                                let mut nn = next.clone();
                                nn.addr = Some(Num { v: nl.offset as i128, sp: mix.below(6) as u8 });
                                new_fields.push(nn);
                                cursor = nl.offset + nl.size;
                                k += 2;
                                continue;
                            }
                        }
                        if let Some(a) = &f.addr {
                            let gap = fl.offset - cursor;
                            if gap == 0 && want("drop-address", &mut mix) {
                                applied.insert("drop-address".to_string());
                                nf.addr = None;
                            } else if gap > 0 && fl.emitted && want("address-to-gap", &mut mix) {
                                applied.insert("address-to-gap".to_string());
                                new_fields.push(Field {
                                    sty: 0,
                                    vis: false,
                                    name: "_".into(),
                                    ty: Ty::Unk(gap),
                                    addr: None,
                                    base: false,
                                    doc: vec![],
                                });
                                nf.addr = None;
                            } else if want("respell", &mut mix) {
                                applied.insert("respell".to_string());
                                let mut a2 = a.clone();
                                respell(&mut a2, &mut mix);
                                nf.addr = Some(a2);
                            }
                        } else if fl.emitted && want("explicit-address", &mut mix) {
                            applied.insert("explicit-address".to_string());
                            nf.addr = Some(Num { v: fl.offset as i128, sp: mix.below(6) as u8 });
                        }
                        new_fields.push(nf);
                        cursor = fl.offset + fl.size;
                        k += 1;
                    }
                    otd.fields = new_fields;
                    match &td.size {
                        None => {
                            if want("add-size", &mut mix) {
                                applied.insert("add-size".to_string());
                                otd.size = Some(Num { v: l.size as i128, sp: mix.below(6) as u8 });
                            }
                        }
                        Some(s) => {
                            if want("respell", &mut mix) {
                                applied.insert("respell".to_string());
                                let mut s2 = s.clone();
                                respell(&mut s2, &mut mix);
                                otd.size = Some(s2);
                            }
                        }
                    }
                    if let Some(a) = &td.align {
                        if want("respell", &mut mix) {
                            applied.insert("respell".to_string());
                            let mut a2 = a.clone();
                            respell(&mut a2, &mut mix);
                            otd.align = Some(a2);
                        }
                    }
                    if let (Some(v), Some(ov)) = (&td.vft, &mut otd.vft) {
                        let slots = vft_slots(v);
                        for (fi, f) in v.funcs.iter().enumerate() {
                            match &f.index {
                                None => {
                                    if want("add-index", &mut mix) {
                                        applied.insert("add-index".to_string());
                                        ov.funcs[fi].index = Some(Num { v: slots.slot[fi] as i128, sp: mix.below(6) as u8 });
                                    }
                                }
                                Some(ix) => {
                                    if want("respell", &mut mix) {
                                        applied.insert("respell".to_string());
                                        let mut i2 = ix.clone();
                                        respell(&mut i2, &mut mix);
                                        ov.funcs[fi].index = Some(i2);
                                    }
                                }
                            }
                        }
                    }
                }
                Item::Enum(e) => {
                    let Item::Enum(oe) = &mut out.mods[mi].items[ii] else { unreachable!() };
                    let mut next: i128 = 0;
                    for (vi, v) in e.variants.iter().enumerate() {
                        let val = match &v.value {
                            Some(n) => {
                                if want("respell", &mut mix) {
                                    applied.insert("respell".to_string());
                                    let mut n2 = n.clone();
                                    respell(&mut n2, &mut mix);
                                    oe.variants[vi].value = Some(n2);
                                }
                                n.v
                            }
                            None => {
                                if want("explicit-enum-value", &mut mix) {
                                    applied.insert("explicit-enum-value".to_string());
                                    oe.variants[vi].value = Some(Num { v: next, sp: mix.below(6) as u8 });
                                }
                                next
                            }
                        };
                        next = val + 1;
                    }
                }
            }
        }
        // impl / extern-value addresses may be respelled as well
        for (k, im) in m.impls.iter().enumerate() {
            for (fi, f) in im.funcs.iter().enumerate() {
                if let Some(a) = &f.addr {
                    if want("respell", &mut mix) {
                        applied.insert("respell".to_string());
                        let mut a2 = a.clone();
                        respell(&mut a2, &mut mix);
                        out.mods[mi].impls[k].funcs[fi].addr = Some(a2);
                    }
                }
            }
        }
        // reorder the definitions of the module (impl blocks travel with their item in the printer)
        if m.items.len() >= 2 && want("permute-items", &mut mix) {
            applied.insert("permute-items".to_string());
            let items = &mut out.mods[mi].items;
            for i in (1..items.len()).rev() {
                let j = mix.below(i as u64 + 1) as usize;
                items.swap(i, j);
            }
        }
    }
    (out, applied)
}

pub struct Equivalence;

fn has_features(prog: &Prog) -> (bool, bool, bool) {
    let mut gap = false;
    let mut index = false;
    let mut implicit_enum = false;
    for m in &prog.mods {
        for it in &m.items {
            match it {
                Item::Type(td) => {
                    if td.fields.iter().any(|f| f.addr.is_some() || (f.name == "_" && matches!(f.ty, Ty::Unk(_)))) {
                        gap = true;
                    }
                    if let Some(v) = &td.vft {
                        if v.funcs.iter().any(|f| f.index.is_some()) {
                            index = true;
                        }
                    }
                }
                Item::Enum(e) => {
                    if e.variants.iter().any(|v| v.value.is_none()) {
                        implicit_enum = true;
                    }
                }
            }
        }
    }
    (gap, index, implicit_enum)
}

impl Prop for Equivalence {
    type Case = Case;
    crate::prog_shrink!();
    fn name(&self) -> String {
        "C20/equivalence".into()
    }
    fn rule(&self) -> String {
        format!("accepted programs from the rich generator; each is rewritten by a seeded random combination (or, for a quarter of the cases, exactly one kind) of the listed semantics-preserving rewrites {KINDS:?}; oracle: the rewritten program is accepted as well and every output file is byte-identical. Non-trivial: >=2 rewrite kinds applied to a program with a gap, an index or an implicit enum value (or a single-kind case that applied its kind)")
    }
    fn gen(&self, t: &mut Tape) -> Case {
        let w = if t.chance(1, 2) { 8 } else { 4 };
        let mut cfg = GenCfg::rich(w);
        cfg.max_items = 2 + t.below(10 * crate::driver::scale());
        // also gaps in front of a first base that carries the shared vftable pointer
        cfg.vft_base_anywhere = true;
        cfg.decorated_gaps = true;
        cfg.base_num = 2;
        let (prog, _, _) = gen_prog(t, cfg);
        let only = if t.chance(1, 4) { Some(t.pick(KINDS).to_string()) } else { None };
        Case { prog, w, seed: t.u64(), only }
    }
    fn judge(&self, c: &Case) -> Outcome {
        let base = build_prog(&c.prog, c.w as usize);
        let Res::Ok(b0) = &base else {
            return match base {
                Res::Panic(p) => Outcome::fail("panic", p),
                _ => Outcome::discard("original-not-accepted"),
            };
        };
        let (p2, applied) = rewrite(&c.prog, c.w, c.seed, c.only.as_deref());
        if applied.is_empty() {
            return Outcome::discard("no-rewrite-applicable");
        }
        let r2 = build_prog(&p2, c.w as usize);
        let kinds: Vec<String> = applied.iter().cloned().collect();
        let (gap, index, ienum) = has_features(&c.prog);
        let nontrivial = (applied.len() >= 2 && (gap || index || ienum)) || c.only.is_some();
        let mut classes: Vec<String> = kinds.iter().map(|k| format!("applied:{k}")).collect();
        if c.only.is_some() {
            classes.push("single-kind".into());
        }
        match &r2 {
            Res::Panic(p) => Outcome::fail("panic", format!("rewritten program panics: {p}\n{}", prog_text(&p2))),
            Res::Err(e) => Outcome::fail(
                &format!("rewritten-rejected:{}", kinds.join("+")),
                format!("rewrites {kinds:?} turned an accepted program into a rejected one: {e}\n--- rewritten\n{}", prog_text(&p2)),
            ),
            Res::Ok(b2) => {
                if b0.files == b2.files {
                    Outcome::pass(nontrivial).with_classes(classes)
                } else {
                    let mut d = String::new();
                    for (k, v) in &b0.files {
                        if let Some(v2) = b2.files.get(k) {
                            if v != v2 {
                                let (l1, l2): (Vec<&str>, Vec<&str>) = (v.lines().collect(), v2.lines().collect());
                                let i = l1.iter().zip(l2.iter()).position(|(a, b)| a != b).unwrap_or(l1.len().min(l2.len()));
                                d.push_str(&format!("{k} differs from line {}:\n  original : {}\n  rewritten: {}\n", i + 1, l1.get(i).unwrap_or(&"<eof>"), l2.get(i).unwrap_or(&"<eof>")));
                            }
                        } else {
                            d.push_str(&format!("{k} missing after the rewrite\n"));
                        }
                    }
                    Outcome::fail(&format!("output-differs:{}", kinds.join("+")), format!("rewrites {kinds:?}:\n{d}--- rewritten\n{}", prog_text(&p2)))
                }
            }
        }
    }
    fn show(&self, c: &Case) -> Value {
        let (p2, applied) = rewrite(&c.prog, c.w, c.seed, c.only.as_deref());
        json!({"width": c.w, "rewrites": applied, "original": prog_text(&c.prog), "rewritten": prog_text(&p2)})
    }
}

pub fn props() -> Vec<Box<dyn DynProp>> {
    vec![Box::new(Equivalence)]
}

pub fn run(ctx: &mut Ctx) {
    let q = ctx.quick();
    ctx.run(&Equivalence, &Params::new(if q { 30_000 } else { 600_000 }, 100, 2500).shrink(300));
}
