//! C18 — parsing is the inverse of printing.

use serde::{Deserialize, Serialize};
use serde_json::{json, Value};

use crate::driver::*;
use crate::gast::*;
use crate::model::Ty;
use crate::pipeline::catch;
use crate::tape::Tape;

fn ty_depth(t: &Ty) -> u32 {
    match t {
        Ty::Named(_) | Ty::Unk(_) => 1,
        Ty::CPtr(t) | Ty::MPtr(t) | Ty::Arr(t, _) => 1 + ty_depth(t),
    }
}

fn stats(m: &GMod) -> (usize, bool, u32, Vec<String>) {
    let mut kinds = std::collections::BTreeSet::new();
    let mut has_arg_attr = false;
    let mut depth = 0;
    let mut classes = vec![];
    let mut see_attrs = |a: &[GAttr]| {
        for x in a {
            if let GAttr::Func(_, es) = x {
                if !es.is_empty() {
                    has_arg_attr = true;
                }
            }
        }
    };
    let mut see_func = |f: &GFunc, depth: &mut u32| {
        for a in &f.args {
            if let GArg::Named(_, t) = a {
                *depth = (*depth).max(ty_depth(t));
            }
        }
        if let Some(r) = &f.ret {
            *depth = (*depth).max(ty_depth(r));
        }
    };
    see_attrs(&m.attrs);
    for it in &m.items {
        match it {
            GItem::Use(_) => {
                kinds.insert("use");
            }
            GItem::ExternType(_, a) => {
                kinds.insert("extern_type");
                see_attrs(a);
            }
            GItem::ExternValue { attrs, ty, .. } => {
                kinds.insert("extern_value");
                see_attrs(attrs);
                depth = depth.max(ty_depth(ty));
            }
            GItem::Def { attrs, body, .. } => {
                see_attrs(attrs);
                match body {
                    GDef::Type(stmts, _) => {
                        kinds.insert("type");
                        for s in stmts {
                            see_attrs(&s.attrs);
                            match &s.field {
                                GField::Field(_, n, t) => {
                                    depth = depth.max(ty_depth(t));
                                    if n == "_" {
                                        classes.push("underscore_field".to_string());
                                    }
                                }
                                GField::Vftable(fs) => {
                                    classes.push("vftable_block".to_string());
                                    for f in fs {
                                        see_attrs(&f.attrs);
                                        see_func(f, &mut depth);
                                    }
                                }
                            }
                        }
                    }
                    GDef::Enum(_, stmts) => {
                        kinds.insert("enum");
                        for s in stmts {
                            see_attrs(&s.attrs);
                        }
                    }
                }
            }
            GItem::Impl { attrs, funcs, .. } => {
                kinds.insert("impl");
                see_attrs(attrs);
                for f in funcs {
                    see_attrs(&f.attrs);
                    see_func(f, &mut depth);
                }
            }
            GItem::Backend { form, .. } => {
                kinds.insert("backend");
                classes.push(format!("backend_form_{form}"));
            }
        }
    }
    for k in &kinds {
        classes.push(format!("kind_{k}"));
    }
    classes.sort();
    classes.dedup();
    (kinds.len(), has_arg_attr, depth, classes)
}

fn parse(text: &str) -> Result<Result<pyxis::grammar::Module, (String, usize, usize)>, String> {
    catch(|| {
        pyxis::parser::parse_str(text).map_err(|e| {
            let lc = e.span().start();
            (e.to_string(), lc.line, lc.column + 1)
        })
    })
}

// ------------------------------------------------------------- print→parse

#[derive(Clone, Serialize, Deserialize)]
pub struct RtCase {
    pub m: GMod,
    pub style: u64,
}

pub struct PrintParse;
impl Prop for PrintParse {
    type Case = RtCase;
    fn name(&self) -> String {
        "C18/print-parse".into()
    }
    fn rule(&self) -> String {
        "abstract module over the full grammar (gast::gen_gmod) printed with randomised whitespace, comments, trailing separators, attribute grouping, doc-comment vs #[doc], literal spellings; oracle parse_str(print(m)) == m. Non-trivial: >=3 item kinds, >=1 attribute with arguments, >=1 type of nesting depth >=2; distinct by (module, style seed)".into()
    }
    fn gen(&self, t: &mut Tape) -> RtCase {
        let m = gen_gmod(t);
        let style = t.u64();
        RtCase { m, style }
    }
    fn judge(&self, c: &RtCase) -> Outcome {
        let text = print_gmod(&c.m, Style::random(c.style));
        let expected = to_grammar(&c.m);
        let (kinds, argattr, depth, classes) = stats(&c.m);
        let nontrivial = kinds >= 3 && argattr && depth >= 2;
        match parse(&text) {
            Err(p) => Outcome::fail("panic", format!("parser panicked: {p}\n--- text\n{text}")),
            Ok(Err((e, l, col))) => Outcome::fail(
                "rejected",
                format!("printed module was rejected at {l}:{col}: {e}\n--- text\n{text}"),
            ),
            Ok(Ok(got)) => {
                if got == expected {
                    let mut o = Outcome::pass(nontrivial);
                    o.classes = classes;
                    // the canonical spelling must give the same module too
                    let canon = print_gmod(&c.m, Style::canonical());
                    match parse(&canon) {
                        Ok(Ok(g2)) if g2 == expected => o,
                        other => Outcome::fail(
                            "canonical-differs",
                            format!("canonical print parsed differently: {:?}\n--- text\n{canon}", other.map(|r| r.map(|_| "Ok(other module)"))),
                        ),
                    }
                } else {
                    Outcome::fail(
                        "mismatch",
                        format!("parsed module differs from the printed one\n--- text\n{text}\n--- expected\n{expected:#?}\n--- got\n{got:#?}"),
                    )
                }
            }
        }
    }
    fn show(&self, c: &RtCase) -> Value {
        json!({"style_seed": c.style, "text": print_gmod(&c.m, Style::random(c.style))})
    }
    fn fixed_cases(&self) -> Vec<RtCase> {
        // repository inputs, taken through from_grammar
        let mut v = vec![];
        for text in crate::corpus::repo_texts() {
            if let Ok(m) = pyxis::parser::parse_str(&text) {
                for s in 0..3u64 {
                    v.push(RtCase {
                        m: from_grammar(&m),
                        style: s.wrapping_mul(0x9E3779B97F4A7C15) + 1,
                    });
                }
            }
        }
        v
    }
}

// ------------------------------------------------------ text→parse→print→parse

fn lexeme_ok(piece: &str) -> bool {
    piece.is_empty() || syn::parse_str::<syn::Ident>(piece).is_ok()
}
fn type_name_printable(name: &str) -> bool {
    name.split(|c| c == '<' || c == '>').all(lexeme_ok)
}
fn ty_printable(t: &Ty) -> bool {
    match t {
        Ty::Named(n) => type_name_printable(n),
        Ty::CPtr(t) | Ty::MPtr(t) | Ty::Arr(t, _) => ty_printable(t),
        Ty::Unk(_) => true,
    }
}
fn names_printable(m: &GMod) -> bool {
    let func_ok = |f: &GFunc| {
        f.args.iter().all(|a| match a {
            GArg::Named(_, t) => ty_printable(t),
            _ => true,
        }) && f.ret.as_ref().map(ty_printable).unwrap_or(true)
    };
    m.items.iter().all(|it| match it {
        GItem::Use(p) => p.iter().all(|s| type_name_printable(s)),
        GItem::ExternType(n, _) => type_name_printable(n),
        GItem::ExternValue { ty, .. } => ty_printable(ty),
        GItem::Def { body, .. } => match body {
            GDef::Type(stmts, _) => stmts.iter().all(|s| match &s.field {
                GField::Field(_, _, t) => ty_printable(t),
                GField::Vftable(fs) => fs.iter().all(func_ok),
            }),
            GDef::Enum(t, _) => ty_printable(t),
        },
        GItem::Impl { funcs, .. } => funcs.iter().all(func_ok),
        GItem::Backend { .. } => true,
    })
}

#[derive(Clone, Serialize, Deserialize)]
pub struct TextCase {
    pub text: String,
}

fn mutate_tokens(t: &mut Tape, toks: &mut Vec<String>) {
    let soup = [
        "pub", "type", "enum", "fn", "impl", "extern", "use", "backend", "vftable", "unknown", "prologue", "epilogue", "{",
        "}", "(", ")", "[", "]", "<", ">", ",", ";", ":", "::", "->", "#", "!", "=", "*", "const", "mut", "&", "self", "_",
        "0", "1", "-1", "0x10", "18446744073709551615", "99999999999999999999", "\"s\"", "x", "T", "u32", "///d\n", "//!m\n",
        "@", "$", "?", "%", "'a", "1.5", "'c'", "super", "r#type", "r#\"raw\"#",
    ];
    let n = 1 + t.below(3);
    for _ in 0..n {
        if toks.is_empty() {
            toks.push(t.pick(&soup).to_string());
            continue;
        }
        let i = t.below(toks.len() as u64) as usize;
        match t.below(5) {
            0 => {
                toks.remove(i);
            }
            1 => {
                let x = toks[i].clone();
                toks.insert(i, x);
            }
            2 => {
                let j = t.below(toks.len() as u64) as usize;
                toks.swap(i, j);
            }
            3 => toks.insert(i, t.pick(&soup).to_string()),
            _ => toks[i] = t.pick(&soup).to_string(),
        }
    }
}

pub struct ParsePrintParse;
impl Prop for ParsePrintParse {
    type Case = TextCase;
    fn name(&self) -> String {
        "C18/parse-print-parse".into()
    }
    fn rule(&self) -> String {
        "token-level mutations (delete/duplicate/swap/insert/replace, 1-3 per case) of printed valid modules and pure token soup; oracle: if the text parses to m then parse_str(print_canonical(m)) == m (the parser cannot accept something it then reads differently), otherwise the error position lies inside the text. Non-trivial: mutated text that still parses and has >=1 item".into()
    }
    fn gen(&self, t: &mut Tape) -> TextCase {
        let mut toks = if t.chance(1, 8) {
            vec![]
        } else {
            let m = gen_gmod(t);
            let mut p = Printer::new(Style::random(t.u64()));
            p.module(&m);
            p.toks
        };
        if toks.is_empty() {
            let n = t.below(12);
            let mut tmp = vec![];
            for _ in 0..n {
                mutate_tokens(t, &mut tmp);
            }
            toks = tmp;
        } else {
            mutate_tokens(t, &mut toks);
        }
        let mut text = String::new();
        for tok in toks {
            text.push_str(&tok);
            if !tok.ends_with('\n') {
                text.push(' ');
            }
        }
        TextCase { text }
    }
    fn judge(&self, c: &TextCase) -> Outcome {
        match parse(&c.text) {
            Err(p) => Outcome::fail("panic", format!("parser panicked: {p}")),
            Ok(Err((e, l, col))) => {
                let lines: Vec<&str> = c.text.split('\n').collect();
                let nlines = lines.len().max(1);
                // syn reports unexpected end of input at call_site (line 0 / column 0 in the fallback); accept 0 as "end"
                let inside = l <= nlines && (l == 0 || col <= lines[l - 1].chars().count() + 1);
                if inside {
                    Outcome::pass(false).class("rejected")
                } else {
                    Outcome::fail("position-outside", format!("error `{e}` at {l}:{col} outside text of {nlines} lines"))
                }
            }
            Ok(Ok(m)) => {
                let gm = from_grammar(&m);
                if !names_printable(&gm) {
                    // the "generics hack" glues juxtaposed identifiers (`A r#b`) into one name that is
                    // not a lexeme; such an AST has no concrete syntax, so the relation is not defined on it
                    return Outcome::discard("ast-name-is-not-a-lexeme (juxtaposed identifiers glued by the generics hack)");
                }
                let canon = print_gmod(&gm, Style::canonical());
                let nontrivial = !gm.items.is_empty();
                match parse(&canon) {
                    Ok(Ok(m2)) if m2 == m => Outcome::pass(nontrivial).class("accepted"),
                    Ok(Ok(m2)) => Outcome::fail(
                        "reparse-differs",
                        format!("text parses to m, canonical print of m parses to m2 != m\n--- canonical\n{canon}\n--- m\n{m:#?}\n--- m2\n{m2:#?}"),
                    ),
                    Ok(Err((e, l, col))) => Outcome::fail(
                        "canonical-rejected",
                        format!("text parses to m but the canonical print of m is rejected at {l}:{col}: {e}\n--- canonical\n{canon}\n--- m\n{m:#?}"),
                    ),
                    Err(p) => Outcome::fail("panic", format!("parser panicked on canonical text: {p}")),
                }
            }
        }
    }
    fn fixed_cases(&self) -> Vec<TextCase> {
        crate::corpus::repo_texts().into_iter().map(|text| TextCase { text }).collect()
    }
}

// ------------------------------------------------------------ bad token

#[derive(Clone, Serialize, Deserialize)]
pub struct BadTokCase {
    pub m: GMod,
    pub style: u64,
    pub at: usize,
    pub tok: String,
}

pub struct BadToken;
impl BadToken {
    pub fn render(c: &BadTokCase) -> (String, usize, usize) {
        let mut p = Printer::new(Style::canonical());
        p.module(&c.m);
        let toks = p.toks;
        let mut at = if toks.is_empty() { 0 } else { c.at % (toks.len() + 1) };
        // "pub>kw": a `pub` right in front of an occurrence of the keyword `kw` that starts a construct which
        // takes no visibility (a vftable block, an impl block, a use, a backend block, another `pub`)
        let mut tok = c.tok.clone();
        if let Some(kw) = c.tok.strip_prefix("pub>") {
            let sites: Vec<usize> = (0..toks.len())
                .filter(|&i| toks[i] == kw && (kw != "vftable" || toks.get(i + 1).map(|s| s == "{").unwrap_or(false)) && (i == 0 || toks[i - 1] != "fn"))
                .collect();
            if sites.is_empty() {
                tok = "@".into();
            } else {
                at = sites[c.at % sites.len()];
                tok = "pub".into();
            }
        }
        let c_tok = tok;
        let mut text = String::new();
        let (mut line, mut col) = (1usize, 1usize);
        let mut pos = (1, 1);
        for (i, tok) in toks.iter().enumerate() {
            if i == at {
                pos = (line, col);
                text.push_str(&c_tok);
                text.push(' ');
                col += c_tok.chars().count() + 1;
            }
            text.push_str(tok);
            for ch in tok.chars() {
                if ch == '\n' {
                    line += 1;
                    col = 1;
                } else {
                    col += 1;
                }
            }
            if !tok.ends_with('\n') {
                if i % 7 == 6 {
                    text.push('\n');
                    line += 1;
                    col = 1;
                } else {
                    text.push(' ');
                    col += 1;
                }
            }
        }
        if at >= toks.len() {
            pos = (line, col);
            text.push_str(&c_tok);
        }
        (text, pos.0, pos.1)
    }
}
impl Prop for BadToken {
    type Case = BadTokCase;
    fn name(&self) -> String {
        "C18/bad-token".into()
    }
    fn rule(&self) -> String {
        "valid module with one token that no production accepts (@ $ ? %) inserted at a token boundary with known (line,col), or a `pub` inserted right in front of a construct that takes no visibility (a vftable block, impl, use, another pub; `pub backend ...` is accepted by the parser and left out); oracle: parse_str returns Err whose start position is >= 1:1 and not after the inserted token (for an inserted `pub`: not after the following line). Non-trivial: module has >=1 item and the token is not inserted at the very start".into()
    }
    fn gen(&self, t: &mut Tape) -> BadTokCase {
        let m = gen_gmod(t);
        BadTokCase {
            m,
            style: 0,
            at: t.below(4096) as usize,
            tok: t.pick(&["@", "$", "?", "%", "@", "$", "pub>vftable", "pub>impl", "pub>use", "pub>pub"]).to_string(),
        }
    }
    fn judge(&self, c: &BadTokCase) -> Outcome {
        let (text, l0, c0) = Self::render(c);
        match parse(&text) {
            Err(p) => Outcome::fail("panic", format!("parser panicked: {p}\n{text}")),
            Ok(Ok(_)) => Outcome::fail("accepted", format!("text with stray `{}` at {l0}:{c0} was accepted\n{text}", c.tok)),
            Ok(Err((e, l, col))) => {
                // an inserted `pub` is a legal token where it stands: the parser may only notice at the next one
                let ok = l >= 1 && ((l, col) <= (l0, c0) || (c.tok.starts_with("pub>") && l <= l0 + 1));
                if ok {
                    Outcome::pass(!c.m.items.is_empty() && (l0, c0) != (1, 1))
                } else {
                    Outcome::fail(
                        "position",
                        format!("stray `{}` inserted at {l0}:{c0} but error `{e}` reported at {l}:{col}\n{text}", c.tok),
                    )
                }
            }
        }
    }
    fn show(&self, c: &BadTokCase) -> Value {
        let (text, l, col) = Self::render(c);
        json!({"text": text, "inserted_at": [l, col], "tok": c.tok})
    }
}

pub fn props() -> Vec<Box<dyn DynProp>> {
    vec![Box::new(PrintParse), Box::new(ParsePrintParse), Box::new(BadToken), Box::new(FuzzTexts { cases: vec![] })]
}

pub fn run(ctx: &mut Ctx) {
    let q = ctx.quick();
    ctx.run(&PrintParse, &Params::new(if q { 150_000 } else { 3_000_000 }, 40, 1500));
    ctx.run(&ParsePrintParse, &Params::new(if q { 80_000 } else { 2_000_000 }, 40, 1200));
    ctx.run(&BadToken, &Params::new(if q { 40_000 } else { 1_000_000 }, 20, 800));
    if !q && ctx.violations.is_empty() {
        let secs: u64 = std::env::var("PV_FUZZ_SECS").ok().and_then(|s| s.parse().ok()).unwrap_or(600);
        match crate::checks::c12::fuzz_campaign("parse_roundtrip", secs) {
            Err(e) => ctx.notes.push(format!("libFuzzer campaign did not run (inconclusive, not a violation): {}", e.chars().take(300).collect::<String>())),
            Ok((arts, log)) => {
                let summary = log.lines().filter(|l| l.contains("cov:") || l.contains("fuzzed for") || l.contains("artifacts")).collect::<Vec<_>>().join(" | ");
                ctx.notes.push(format!("libFuzzer parse_roundtrip: {summary}"));
                ctx.extra.insert("libfuzzer_artifacts".into(), serde_json::json!(arts.len()));
                let cases: Vec<TextCase> = arts.iter().filter_map(|(_, b)| std::str::from_utf8(b).ok().map(|t| TextCase { text: t.to_string() })).collect();
                if !cases.is_empty() {
                    ctx.run(&FuzzTexts { cases }, &Params::new(0, 0, 0));
                }
            }
        }
    }
}

/// Crashing inputs of the libFuzzer target parse_roundtrip, re-judged through ParsePrintParse's oracle.
pub struct FuzzTexts {
    pub cases: Vec<TextCase>,
}
impl Prop for FuzzTexts {
    type Case = TextCase;
    fn name(&self) -> String {
        "C18/libfuzzer".into()
    }
    fn rule(&self) -> String {
        "coverage-guided byte-level search (libFuzzer target parse_roundtrip: text -> parse -> canonical print -> parse, the target aborts when the oracle of C18/parse-print-parse fails); every input the campaign leaves behind is re-judged here".into()
    }
    fn gen(&self, _t: &mut Tape) -> TextCase {
        unreachable!()
    }
    fn judge(&self, c: &TextCase) -> Outcome {
        ParsePrintParse.judge(c)
    }
    fn fixed_cases(&self) -> Vec<TextCase> {
        self.cases.clone()
    }
}
