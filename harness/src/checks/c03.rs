//! C03 — a type description is accepted exactly when it is realisable.

use serde::{Deserialize, Serialize};
use serde_json::{json, Value};

use crate::driver::*;
use crate::model::*;
use crate::pipeline::{build_mem, MemOpts, Res};
use crate::refmodel::*;
use crate::tape::Tape;

#[derive(Clone, Serialize, Deserialize)]
pub struct Case {
    pub t: TypeDef,
    pub w: u64,
}

pub fn single_prog(t: &TypeDef) -> Prog {
    Prog {
        mods: vec![Mod {
            path: vec!["m".into()],
            items: vec![Item::Type(t.clone())],
            ..Default::default()
        }],
    }
}

fn judge_case(c: &Case) -> Outcome {
    let prog = single_prog(&c.t);
    let mut model = Model::new(&prog, c.w);
    let lay = match model.layout(0, 0) {
        Ok(l) => l,
        Err(s) => return Outcome::discard(&format!("model-stuck:{s:?}")),
    };
    let res = build_mem(&print_prog(&prog), c.w as usize, &MemOpts { emit: false, ..Default::default() });
    let n_attr = c.t.size.is_some() as usize + c.t.align.is_some() as usize + c.t.packed as usize + c.t.fields.iter().filter(|f| f.addr.is_some()).count();
    let nontrivial = c.t.fields.len() >= 2 || n_attr >= 1;
    let class = match &lay.reject {
        None => "verdict:accept".to_string(),
        Some(r) => format!("verdict:reject:{r:?}"),
    };
    let o = match (&lay.reject, &res) {
        (_, Res::Panic(p)) => Outcome::fail("panic", format!("pyxis panicked: {p}")),
        (None, Res::Ok(b)) => {
            // also compare the resolved size/alignment with the model's
            let got = b.items.get(&format!("m::{}", c.t.name));
            match got {
                Some(info) if info.size as u64 == lay.size && info.align as u64 == lay.align => Outcome::pass(nontrivial),
                Some(info) => Outcome::fail(
                    "size-align",
                    format!("accepted, but resolved size/align {}/{} differ from the model's {}/{}", info.size, info.align, lay.size, lay.align),
                ),
                None => Outcome::fail("missing", "accepted, but the type is not in the registry".into()),
            }
        }
        (Some(_), Res::Err(_)) => Outcome::pass(nontrivial),
        (None, Res::Err(e)) => Outcome::fail("spurious-reject", format!("model: realisable (size {} align {}), pyxis: {e}", lay.size, lay.align)),
        (Some(r), Res::Ok(_)) => Outcome::fail(&format!("spurious-accept:{r:?}"), format!("model: not realisable ({r:?}), pyxis accepted it")),
    };
    let o = o.class(&class);
    if c.t.singleton.is_some() || c.t.copyable || c.t.cloneable {
        o.class("with-layout-neutral-attribute")
    } else {
        o
    }
}

fn show(c: &Case) -> Value {
    let mut s = String::new();
    print_type(&mut s, &c.t);
    json!({"width": c.w, "pyxis": s})
}

// ---------------------------------------------------------------- random

pub struct Random;

fn scalar(t: &mut Tape) -> Ty {
    Ty::n(*t.pick(&["u8", "u32", "u16", "u64", "bool", "i8", "i16", "i32", "i64", "f32", "f64", "u128", "i128"]))
}
pub fn gen_field_ty(t: &mut Tape) -> Ty {
    match t.below(10) {
        0..=4 => scalar(t),
        5 => {
            let inner = if t.chance(1, 2) { scalar(t) } else { Ty::n("void") };
            if t.chance(1, 2) {
                inner.cptr()
            } else {
                inner.mptr()
            }
        }
        6 => Ty::Unk(t.small(64)),
        7 => {
            let e = scalar(t);
            e.arr(t.small(16))
        }
        8 => {
            let e = scalar(t).cptr();
            e.arr(1 + t.below(4))
        }
        _ => {
            let e = scalar(t).arr(t.below(4));
            e.arr(t.below(4))
        }
    }
}

impl Prop for Random {
    type Case = Case;
    fn name(&self) -> String {
        "C03/random".into()
    }
    fn rule(&self) -> String {
        "single-type descriptions: 0..8 fields over all built-in scalars, pointers, (nested, zero-length) arrays, unknown<N>; per field address none/at cursor/after a gap/misaligned/overlapping; size none/natural/larger/smaller/odd; align none/pow2/non-pow2/0; packed; vftable block; layout-neutral attributes (singleton, copyable, cloneable) on one type in four; widths 4 and 8; numbers up to 2^16. Oracle: build Ok iff reference model says realisable (both directions), plus resolved size/align equal the model's. Non-trivial: >=2 fields or >=1 attribute; classes report the deciding condition".into()
    }
    fn gen(&self, t: &mut Tape) -> Case {
        let w = if t.chance(1, 2) { 8 } else { 4 };
        let packed = t.chance(1, 6);
        let has_vft = t.chance(1, 5);
        let nf = t.below(9);
        let mut fields = vec![];
        // track a cursor with a throw-away model of sizes to bias towards valid layouts
        let mut cursor: u64 = if has_vft { w } else { 0 };
        let size_of = |ty: &Ty| -> (u64, u64) {
            fn go(ty: &Ty, w: u64) -> (u64, u64) {
                match ty {
                    Ty::Named(n) => {
                        let s = builtin_size(n).unwrap_or(0);
                        (s, s.max(1))
                    }
                    Ty::CPtr(_) | Ty::MPtr(_) => (w, w),
                    Ty::Arr(e, n) => {
                        let (s, a) = go(e, w);
                        (s * n, a)
                    }
                    Ty::Unk(n) => (*n, 1),
                }
            }
            go(ty, w)
        };
        for i in 0..nf {
            let ty = gen_field_ty(t);
            let (s, a) = size_of(&ty);
            let aligned = (cursor + a - 1) / a * a;
            let addr = match t.below(12) {
                0..=3 => {
                    // implicit; valid only if cursor is aligned
                    None
                }
                4..=6 => Some(aligned),
                7 | 8 => Some(aligned + a * t.small(8)),
                9 => Some(cursor + t.small(5)),
                10 => Some(cursor.saturating_sub(1 + t.small(4))),
                _ => Some(t.small(65536)),
            };
            let off = addr.unwrap_or(cursor).max(cursor);
            cursor = off + s;
            let sp = t.below(6) as u8;
            fields.push(Field {
                sty: 0,
                vis: t.chance(1, 2),
                name: if t.chance(1, 8) { "_".into() } else { format!("f{i}") },
                ty,
                addr: addr.map(|a| Num { v: a as i128, sp }),
                base: false,
                doc: vec![],
            });
        }
        let size = match t.below(10) {
            0..=4 => None,
            5 | 6 => Some(cursor),
            7 => Some((cursor + 7) / 8 * 8 + 8 * t.small(4)),
            8 => Some(cursor.saturating_sub(1 + t.small(3))),
            _ => Some(t.small(65536)),
        };
        let align = match t.below(12) {
            0..=5 => None,
            6 | 7 | 8 => Some(*t.pick(&[1u64, 2, 4, 8, 16, 32])),
            9 => Some(*t.pick(&[3u64, 6, 12, 24, 5, 10])),
            10 => Some(0),
            _ => Some(t.small(64)),
        };
        let td = TypeDef {
            sty: (t.below(4) as u8) | if t.chance(1, 4) { 0x80 } else { 0 } | if t.chance(1, 2) { 0x10 } else { 0 },
            vis: true,
            name: "T".into(),
            size: size.map(|v| Num { v: v as i128, sp: 0 }),
            align: align.map(|v| Num { v: v as i128, sp: 0 }),
            packed,
            vft: if has_vft {
                Some(Vft {
                    size: None,
                    funcs: vec![Func {
                        more: vec![],
                        sty: 0,
                        vis: true,
                        name: "vf".into(),
                        doc: vec![],
                        args: vec![Arg::ConstSelf],
                        ret: None,
                        addr: None,
                        index: None,
                        cc: None,
                    }],
                })
            } else {
                None
            },
            fields,
            // attributes that say nothing about the layout must not change the verdict
            singleton: if t.chance(1, 4) { Some(Num { v: 0x1000 + 4 * t.small(4096) as i128, sp: t.below(6) as u8 }) } else { None },
            copyable: t.chance(1, 6),
            cloneable: t.chance(1, 6),
            ..Default::default()
        };
        Case { t: td, w }
    }
    fn judge(&self, c: &Case) -> Outcome {
        judge_case(c)
    }
    fn show(&self, c: &Case) -> Value {
        show(c)
    }
}

// ------------------------------------------------------------------ grid

pub struct Grid {
    pub thorough: bool,
}

fn grid_ty(code: &str) -> Option<Ty> {
    Some(match code {
        "none" => return None,
        "ptr" => Ty::n("u8").cptr(),
        "arr" => Ty::n("u16").arr(2),
        "unk1" => Ty::Unk(1),
        "unk3" => Ty::Unk(3),
        s => Ty::n(s),
    })
}

impl Prop for Grid {
    type Case = Case;
    fn name(&self) -> String {
        "C03/grid".into()
    }
    fn rule(&self) -> String {
        "exhaustive grid: up to 2 fields x address x size x align x packed x vftable x width (x attribute order/grouping where packed and align meet) (value sets in checks/c03.rs, larger in the thorough tier); same oracle as C03/random; every grid point is distinct; non-trivial: >=2 fields or >=1 attribute".into()
    }
    fn gen(&self, _t: &mut Tape) -> Case {
        unreachable!()
    }
    fn enumerate(&self) -> Option<Box<dyn Iterator<Item = Case> + '_>> {
        let (f1s, a1s, f2s, a2s, sizes, aligns): (Vec<&str>, Vec<i64>, Vec<&str>, Vec<i64>, Vec<i64>, Vec<i64>) = if self.thorough {
            (
                vec!["none", "u8", "u16", "u32", "u64", "ptr", "arr", "unk1", "unk3"],
                vec![-1, 0, 1, 2, 3, 4, 6, 8],
                vec!["none", "u8", "u16", "u32", "u64", "ptr", "arr", "unk3"],
                vec![-1, 0, 1, 2, 3, 4, 5, 6, 7, 8, 10, 12, 16],
                vec![-1, 0, 1, 2, 3, 4, 5, 6, 7, 8, 9, 10, 12, 14, 16, 20, 24],
                vec![-1, 1, 2, 3, 4, 6, 8, 16],
            )
        } else {
            (
                vec!["u8", "u32", "u64", "ptr", "unk3"],
                vec![-1, 0, 2, 4, 8],
                vec!["none", "u16", "u32", "u64", "arr"],
                vec![-1, 4, 6, 8, 12, 16],
                vec![-1, 8, 12, 16, 24],
                vec![-1, 1, 2, 3, 4, 8, 16],
            )
        };
        let mut v = vec![];
        for f1 in &f1s {
            for a1 in &a1s {
                if *f1 == "none" && *a1 != -1 {
                    continue;
                }
                for f2 in &f2s {
                    for a2 in &a2s {
                        if *f2 == "none" && *a2 != -1 {
                            continue;
                        }
                        v.push((*f1, *a1, *f2, *a2));
                    }
                }
            }
        }
        let it = v.into_iter().flat_map(move |(f1, a1, f2, a2)| {
            let sizes = sizes.clone();
            let aligns = aligns.clone();
            let mut out = vec![];
            for s in &sizes {
                for al in &aligns {
                    for packed in [false, true] {
                        for vft in [false, true] {
                            for w in [4u64, 8] {
                                let mut fields = vec![];
                                for (nm, f, a) in [("a", f1, a1), ("b", f2, a2)] {
                                    if let Some(ty) = grid_ty(f) {
                                        let mut fl = Field::new(nm, ty);
                                        if a >= 0 {
                                            fl.addr = Some(Num::d(a as i128));
                                        }
                                        fields.push(fl);
                                    }
                                }
                                // attribute order and bracket grouping: both orders of packed/align
                                let stys: &[u8] = if packed && *al >= 0 { &[0, 2, 0x82] } else { &[0] };
                                for sty in stys {
                                out.push(Case {
                                    w,
                                    t: TypeDef {
                                        sty: *sty,
                                        vis: true,
                                        name: "T".into(),
                                        size: (*s >= 0).then(|| Num::d(*s as i128)),
                                        align: (*al >= 0).then(|| Num::d(*al as i128)),
                                        packed,
                                        vft: vft.then(|| Vft {
                                            size: None,
                                            funcs: vec![],
                                        }),
                                        fields: fields.clone(),
                                        ..Default::default()
                                    },
                                });
                                }
                            }
                        }
                    }
                }
            }
            out
        });
        Some(Box::new(it))
    }
    fn judge(&self, c: &Case) -> Outcome {
        judge_case(c)
    }
    fn show(&self, c: &Case) -> Value {
        show(c)
    }
}

// --------------------------------------------------------------- members

/// A type whose members are other user types: empty and zero-sized ones, packed, over-aligned,
/// enums, extern types, vftable owners.
pub struct Members;

#[derive(Clone, Serialize, Deserialize)]
pub struct MCase {
    pub prog: Prog,
    pub w: u64,
}

fn member_library(w: u64) -> Mod {
    let mut m = Mod {
        path: vec!["m".into()],
        ..Default::default()
    };
    let ty = |name: &str, fields: Vec<Field>| TypeDef {
        vis: true,
        name: name.into(),
        fields,
        ..Default::default()
    };
    m.items.push(Item::Type(ty("Empty", vec![])));
    m.items.push(Item::Type(ty("ZArr", vec![Field::new("z", Ty::n("u32").arr(0))])));
    let mut p3 = ty("P3", vec![Field::new("b", Ty::Unk(3))]);
    p3.packed = true;
    m.items.push(Item::Type(p3));
    let mut a16 = ty("A16", vec![Field::new("v", Ty::n("f32").arr(4))]);
    a16.align = Some(Num::d(16));
    m.items.push(Item::Type(a16));
    let mut b = Field::new("b", Ty::n("u32"));
    b.addr = Some(Num::d(4));
    let mut pair = ty("Pair", vec![Field::new("a", Ty::n("u8")), b]);
    pair.size = Some(Num::d(8));
    m.items.push(Item::Type(pair));
    let mut v = ty("V", vec![]);
    v.vft = Some(Vft {
        size: None,
        funcs: vec![Func {
            more: vec![],
            sty: 0,
            vis: true,
            name: "vf".into(),
            doc: vec![],
            args: vec![Arg::ConstSelf],
            ret: None,
            addr: None,
            index: None,
            cc: None,
        }],
    });
    m.items.push(Item::Type(v));
    for (name, base) in [("E16", "u16"), ("E64", "u64")] {
        m.items.push(Item::Enum(EnumDef {
            sty: 0,
            vis: true,
            name: name.into(),
            doc: vec![],
            base: base.into(),
            variants: vec![Variant {
                sty: 0,
                name: "A".into(),
                value: None,
                default: false,
                doc: vec![],
            }],
            singleton: None,
            copyable: false,
            cloneable: false,
            defaultable: false,
        }));
    }
    for (name, size, align) in [("X0a1", 0, 1), ("X0a2", 0, 2), ("X0a4", 0, 4), ("X0a8", 0, 8), ("X0a16", 0, 16), ("X12", 12, 4), ("X24a8", 24, 8)] {
        m.ext_types.push(ExtType {
            name: name.into(),
            size: Num::d(size),
            align: Num::d(align),
        });
    }
    let _ = w;
    m
}

const MEMBER_NAMES: &[&str] = &["Empty", "ZArr", "P3", "A16", "Pair", "V", "E16", "E64", "X0a1", "X0a2", "X0a4", "X0a8", "X0a16", "X12", "X24a8"];

impl Prop for Members {
    type Case = MCase;
    crate::prog_shrink!();
    fn name(&self) -> String {
        "C03/members".into()
    }
    fn rule(&self) -> String {
        "a type T of 1-5 fields whose types are other items of the module, by value, in arrays (length 0-3) or as #[base]: an empty struct, a struct holding only a zero-length array, a packed 3-byte struct, an align(16) struct, a struct with a vftable pointer, enums over u16/u64, extern types of size 0 with alignments 1..16 and of size 12/24; mixed with scalars and pointers; per field address none/at cursor/after a gap/misaligned/overlapping; size, align, packed as in C03/random; widths 4 and 8. Oracle: build Ok iff the reference model says realisable, and then resolved size/align equal the model's. Non-trivial: a zero-sized or over-aligned member, or a packed member in a non-packed type".into()
    }
    fn gen(&self, t: &mut Tape) -> MCase {
        let w = if t.chance(1, 2) { 8 } else { 4 };
        let lib = member_library(w);
        let libprog = Prog { mods: vec![lib.clone()] };
        let mut model = Model::new(&libprog, w);
        let packed = t.chance(1, 6);
        let nf = 1 + t.below(5);
        let mut cursor = 0u64;
        let mut fields = vec![];
        for i in 0..nf {
            let mut is_struct = false;
            let ty = match t.below(10) {
                0..=5 => {
                    let n = *t.pick(MEMBER_NAMES);
                    is_struct = matches!(n, "Empty" | "ZArr" | "P3" | "A16" | "Pair");
                    if t.chance(1, 5) {
                        is_struct = false;
                        Ty::n(n).arr(t.below(4))
                    } else {
                        Ty::n(n)
                    }
                }
                6 | 7 => scalar(t),
                8 => scalar(t).cptr(),
                _ => Ty::Unk(t.small(9)),
            };
            let (s, a) = match model.ty_info(0, &ty) {
                TyRes::Ok { size, align } => (size, if packed { 1 } else { align.max(1) }),
                _ => (0, 1),
            };
            let aligned = (cursor + a - 1) / a * a;
            let addr = match t.below(12) {
                0..=3 => None,
                4..=6 => Some(aligned),
                7 | 8 => Some(aligned + a * t.small(4)),
                9 => Some(cursor + t.small(5)),
                10 => Some(cursor.saturating_sub(1 + t.small(4))),
                _ => Some(t.small(64)),
            };
            let off = addr.unwrap_or(cursor).max(cursor);
            cursor = off + s;
            fields.push(Field {
                sty: 0,
                vis: true,
                name: format!("f{i}"),
                ty,
                addr: addr.map(|a| Num::d(a as i128)),
                base: is_struct && t.chance(1, 4),
                doc: vec![],
            });
        }
        let size = match t.below(10) {
            0..=4 => None,
            5 | 6 => Some(cursor),
            7 => Some((cursor + 7) / 8 * 8 + 8 * t.small(3)),
            8 => Some((cursor + 15) / 16 * 16),
            _ => Some(cursor.saturating_sub(1 + t.small(3))),
        };
        let align = match t.below(10) {
            0..=5 => None,
            6 | 7 => Some(*t.pick(&[1u64, 2, 4, 8, 16, 32])),
            8 => Some(w),
            _ => Some(16),
        };
        let td = TypeDef {
            sty: (t.below(4) as u8) | if t.chance(1, 4) { 0x80 } else { 0 },
            vis: true,
            name: "T".into(),
            size: size.map(|v| Num::d(v as i128)),
            align: align.map(|v| Num::d(v as i128)),
            packed,
            fields,
            ..Default::default()
        };
        let mut m = lib;
        // the empty helper in its body-less form `type Empty;`, sometimes with layout attributes of its own
        if let Item::Type(e) = &mut m.items[0] {
            if t.chance(1, 2) {
                e.sty |= 0x10;
            }
            match t.below(6) {
                0 => e.align = Some(Num::d(*t.pick(&[1i128, 2, 4, 8, 16]))),
                1 => e.size = Some(Num::d(*t.pick(&[0i128, 4, 8, 16, 24]))),
                2 => {
                    e.size = Some(Num::d(*t.pick(&[8i128, 16, 24, 20])));
                    e.align = Some(Num::d(*t.pick(&[4i128, 8, 16])));
                }
                _ => {}
            }
        }
        m.items.push(Item::Type(td));
        MCase { prog: Prog { mods: vec![m] }, w }
    }
    fn judge(&self, c: &MCase) -> Outcome {
        let Some(ti) = c.prog.mods[0].items.iter().position(|i| i.name() == "T") else {
            return Outcome::discard("no-subject-type");
        };
        let Item::Type(td) = &c.prog.mods[0].items[ti] else { return Outcome::discard("no-subject-type") };
        let mut model = Model::new(&c.prog, c.w);
        // the helper types must be fine on their own
        for i in 0..c.prog.mods[0].items.len() {
            if i != ti && matches!(c.prog.mods[0].items[i], Item::Type(_)) {
                match model.layout(0, i) {
                    Ok(l) if l.reject.is_none() => {}
                    Err(_) | Ok(_) => {
                        if matches!(c.prog.mods[0].items[i], Item::Type(_)) {
                            return Outcome::discard("helper-type-not-realisable");
                        }
                    }
                }
            }
        }
        let lay = match model.layout(0, ti) {
            Ok(l) => l,
            Err(s) => return Outcome::discard(&format!("model-stuck:{s:?}")),
        };
        let res = build_mem(&print_prog(&c.prog), c.w as usize, &MemOpts { emit: false, ..Default::default() });
        let mut zero_or_over = false;
        let mut packed_member = false;
        for f in &td.fields {
            if let TyRes::Ok { size, align } = model.ty_info(0, &f.ty) {
                if (size == 0 && align > 1) || align > c.w {
                    zero_or_over = true;
                }
            }
            if f.ty.leaf() == Some("P3") && !td.packed {
                packed_member = true;
            }
        }
        let class = match &lay.reject {
            None => "verdict:accept".to_string(),
            Some(r) => format!("verdict:reject:{r:?}"),
        };
        let nontrivial = zero_or_over || packed_member;
        let o = match (&lay.reject, &res) {
            (_, Res::Panic(p)) => Outcome::fail("panic", format!("pyxis panicked: {p}")),
            (None, Res::Ok(b)) => match b.items.get("m::T") {
                Some(info) if info.size as u64 == lay.size && info.align as u64 == lay.align => Outcome::pass(nontrivial),
                Some(info) => Outcome::fail("size-align", format!("accepted, but resolved size/align {}/{} differ from the model's {}/{}", info.size, info.align, lay.size, lay.align)),
                None => Outcome::fail("missing", "accepted, but the type is not in the registry".into()),
            },
            (Some(_), Res::Err(_)) => Outcome::pass(nontrivial),
            (None, Res::Err(e)) => Outcome::fail("spurious-reject", format!("model: realisable (size {} align {}), pyxis: {e}", lay.size, lay.align)),
            (Some(r), Res::Ok(_)) => Outcome::fail(&format!("spurious-accept:{r:?}"), format!("model: not realisable ({r:?}), pyxis accepted it")),
        };
        let mut o = o.class(&class);
        if zero_or_over {
            o = o.class("zero-sized-aligned-or-over-aligned-member");
        }
        if packed_member {
            o = o.class("packed-member-in-non-packed-type");
        }
        o
    }
    fn show(&self, c: &MCase) -> Value {
        json!({"width": c.w, "pyxis": prog_text(&c.prog)})
    }
}

pub fn props() -> Vec<Box<dyn DynProp>> {
    vec![Box::new(Random), Box::new(Grid { thorough: false }), Box::new(Members)]
}

pub fn run(ctx: &mut Ctx) {
    let q = ctx.quick();
    ctx.run(&Grid { thorough: !q }, &Params::new(0, 0, 0));
    ctx.run(&Random, &Params::new(if q { 100_000 } else { 3_000_000 }, 10, 120));
    ctx.run(&Members, &Params::new(if q { 60_000 } else { 2_000_000 }, 10, 120).shrink(200));
}
