//! C02 — resolved size/alignment equal the compiler's.

use serde_json::Value;

use super::l2common::*;
use crate::driver::*;
use crate::tape::Tape;

pub struct SizeAlign;

impl Prop for SizeAlign {
    type Case = Case;
    crate::prog_shrink!();
    fn name(&self) -> String {
        "C02/size-align".into()
    }
    fn rule(&self) -> String {
        "same generator as C01 (types embedding types, arrays of types, enums over every integer base, extern types of declared size/alignment, empty types, vftable structs with padding slots). For every emitted struct, enum and <T>Vftable: rustc's size_of/align_of for the configured width equal the size/alignment pyxis resolved (read from the public type registry after build); a declared #[size]/#[align] equals size_of/align_of; #[packed] gives align_of 1. Non-trivial: >=1 item whose size or alignment differs from the pointer width and that is used by value inside another item".into()
    }
    fn gen(&self, t: &mut Tape) -> Case {
        gen_l2_case(t, false)
    }
    fn judge(&self, c: &Case) -> Outcome {
        let st = features(&c.prog, c.w);
        let mut run = match run_l2(&c.prog, c.w, Which::SizeAlign) {
            Ok(r) => r,
            Err(o) => return o,
        };
        // the same description at the other pointer width, when it is valid there too (pointer-free layouts mostly)
        let other = if c.w == 4 { 8 } else { 4 };
        let mut both = false;
        if run.out.probes.iter().all(|p| p.found.is_none()) && run.out.errors.is_empty() && crate::checks::c13::other_width_ok(c) {
            if let Ok(r2) = run_l2(&c.prog, other, Which::SizeAlign) {
                if r2.out.probes.iter().any(|p| p.found.is_some()) {
                    run = r2;
                } else if r2.out.errors.is_empty() {
                    both = true;
                }
            }
        }
        let bad: Vec<_> = run.out.probes.iter().filter(|p| p.found.is_some()).collect();
        if !bad.is_empty() {
            let mut d = String::new();
            for p in bad.iter().take(6) {
                d.push_str(&format!("{}: pyxis says {}, rustc says {}\n", p.label, p.expected, p.found.map(|v| if v == u64::MAX { "?".to_string() } else { v.to_string() }).unwrap()));
            }
            let kind = if bad.iter().any(|p| p.label.starts_with("align_of")) { "align-mismatch" } else { "size-mismatch" };
            return Outcome::fail(kind, d);
        }
        if !run.out.errors.is_empty() {
            let mut codes: Vec<String> = run.out.errors.iter().map(|d| d.code.clone()).collect();
            codes.sort();
            codes.dedup();
            return Outcome::discard(&format!("crate-does-not-compile (C13's business): {}", codes.join("+")));
        }
        let mut o = Outcome::pass(st.used_by_value_odd).class(&format!("width:{}", c.w));
        if both {
            o = o.class("both-widths");
        }
        for (k, v) in [("enums", st.enums > 0), ("externs", st.externs > 0), ("vptr", st.vptr), ("bases", st.bases), ("cross_module", st.cross_module)] {
            if v {
                o = o.class(k);
            }
        }
        o
    }
    fn show(&self, c: &Case) -> Value {
        show_case(c)
    }
}

pub fn props() -> Vec<Box<dyn DynProp>> {
    vec![Box::new(SizeAlign)]
}

pub fn run(ctx: &mut Ctx) {
    let q = ctx.quick();
    ctx.run(&SizeAlign, &Params::new(if q { 4000 } else { 120_000 }, 200, 3000).shrink(120));
}
