//! C19 — a module's bindings do not depend on unrelated definitions (metamorphic).

use std::collections::BTreeSet;

use serde::{Deserialize, Serialize};
use serde_json::{json, Value};

use crate::driver::*;
use crate::genprog::*;
use crate::model::*;
use crate::pipeline::*;
use crate::tape::Tape;

#[derive(Clone, Serialize, Deserialize)]
pub struct Case {
    pub p1: Prog,
    pub p2: Prog,
    pub w: u64,
    /// path of the observed module
    pub observed: Vec<String>,
    pub ops: Vec<String>,
    /// the change touches a module that shares a short type name with something the observed module uses
    pub shares_name: bool,
}

/// Modules reachable from `start` through `use` (module imports and by-name imports).
pub fn closure(p: &Prog, start: usize) -> BTreeSet<usize> {
    let mut seen = BTreeSet::new();
    let mut todo = vec![start];
    while let Some(i) = todo.pop() {
        if !seen.insert(i) {
            continue;
        }
        for u in &p.mods[i].uses {
            for cand in [u.clone(), u[..u.len().saturating_sub(1)].to_vec()] {
                if let Some(j) = p.mods.iter().position(|m| m.path == cand) {
                    todo.push(j);
                }
            }
        }
    }
    seen
}

fn names_used_by(p: &Prog, mods: &BTreeSet<usize>) -> BTreeSet<String> {
    let mut s = BTreeSet::new();
    for &i in mods {
        let m = &p.mods[i];
        for it in &m.items {
            s.insert(it.name().to_string());
            if let Item::Type(t) = it {
                for f in &t.fields {
                    if let Some(n) = f.ty.leaf() {
                        s.insert(n.to_string());
                    }
                }
            }
        }
        for e in &m.ext_types {
            s.insert(e.name.clone());
        }
    }
    s
}

/// field, function, case and extern-value names of these modules (used as *type* names elsewhere)
fn member_names_of(p: &Prog, mods: &BTreeSet<usize>) -> Vec<String> {
    let mut s = BTreeSet::new();
    for &i in mods {
        let m = &p.mods[i];
        for it in &m.items {
            match it {
                Item::Type(t) => {
                    for f in &t.fields {
                        if f.name != "_" {
                            s.insert(f.name.clone());
                        }
                    }
                    if let Some(v) = &t.vft {
                        for f in &v.funcs {
                            s.insert(f.name.clone());
                        }
                    }
                }
                Item::Enum(e) => {
                    for v in &e.variants {
                        s.insert(v.name.clone());
                    }
                }
            }
        }
        for im in &m.impls {
            for f in &im.funcs {
                s.insert(f.name.clone());
            }
        }
        for ev in &m.ext_vals {
            s.insert(ev.name.clone());
            s.insert(format!("get_{}", ev.name));
        }
    }
    s.into_iter().collect()
}

fn simple_type(name: &str, k: u64, _w: u64) -> Item {
    Item::Type(TypeDef {
        vis: true,
        name: name.to_string(),
        packed: k % 2 == 0,
        fields: if k % 2 == 0 { vec![Field::new("a", Ty::n("u32")), Field::new("b", Ty::Unk(k % 4))] } else { vec![Field::new("a", Ty::n("u32")), Field::new("b", Ty::n("u32"))] },
        vft: if k % 3 == 0 && k % 2 == 1 {
            Some(Vft {
                size: None,
                funcs: vec![Func {
                    more: vec![],
                    sty: 0,
                    vis: true,
                    name: "vfx".into(),
                    doc: vec![],
                    args: vec![Arg::MutSelf],
                    ret: None,
                    addr: None,
                    index: None,
                    cc: None,
                }],
            })
        } else {
            None
        },
        ..Default::default()
    })
}

pub struct Unrelated;

impl Prop for Unrelated {
    type Case = Case;
    fn name(&self) -> String {
        "C19/unrelated".into()
    }
    fn rule(&self) -> String {
        "accepted multi-module program P from the rich generator (in one of five M also declares a generic-looking extern type `Zbox<T>` over a type T of another module of its closure, held by pointer and by value; fresh modules then often define a type named T), an observed module M, and a change restricted to modules outside M's transitive `use` closure: add a fresh module (in a fresh directory, at the top, below M's own path, next to M, next to a nested M under the name of the first segment of one of M's imports, or below M under the name of one of M's items; sorting before or after everything; often defining short names M uses or types named like M's members or built-ins; sometimes with extern values, rust backend text, impl blocks of its own, a vftable block copied verbatim from a type M uses together with own definitions of the type names it mentions, and impl blocks for a type of M that it imports but does not define), add items (types, enums, extern types, vftable owners named like things M uses) to an unrelated module, remove an unrelated module nobody imports, remove the last item of an unrelated leaf module, reorder the modules. Oracle: when P and P+change are both accepted, <M>.rs is byte-identical. Pairs where P+change is rejected are discarded and counted. Non-trivial: M has a cross-module reference and the change touches a module that shares a short type name with something M's closure uses".into()
    }
    fn gen(&self, t: &mut Tape) -> Case {
        let w = if t.chance(1, 2) { 8 } else { 4 };
        let mut cfg = GenCfg::rich(w);
        cfg.max_mods = 5;
        cfg.max_items = 3 + t.below(10 * crate::driver::scale());
        let (mut p1, _, _) = gen_prog(t, cfg);
        let with_uses: Vec<usize> = (0..p1.mods.len()).filter(|i| !p1.mods[*i].uses.is_empty()).collect();
        let obs = if !with_uses.is_empty() && t.chance(3, 4) { with_uses[t.below(with_uses.len() as u64) as usize] } else { t.below(p1.mods.len() as u64) as usize };
        let cl = closure(&p1, obs);
        // one program in five: M declares a generic-looking extern type whose argument is the name of a type
        // of another module of its closure (`extern type Zbox<Vec3>;`) and holds it by pointer and by value
        let mut generic_arg: Option<String> = None;
        if t.chance(1, 5) {
            let cands: Vec<String> = cl
                .iter()
                .filter(|&&i| i != obs)
                .flat_map(|&i| p1.mods[i].items.iter().map(|x| x.name().to_string()).collect::<Vec<_>>())
                .filter(|n| !p1.mods[obs].items.iter().any(|x| x.name() == n) && !p1.mods[obs].ext_types.iter().any(|e| &e.name == n))
                .collect();
            if !cands.is_empty() && !p1.mods[obs].items.iter().any(|x| x.name() == "ZboxUser") {
                let arg = cands[t.below(cands.len() as u64) as usize].clone();
                let gname = format!("Zbox<{arg}>");
                p1.mods[obs].ext_types.push(ExtType {
                    name: gname.clone(),
                    size: Num::d(8),
                    align: Num::d(4),
                });
                p1.mods[obs].items.push(Item::Type(TypeDef {
                    vis: true,
                    name: "ZboxUser".into(),
                    packed: true,
                    fields: vec![Field::new("p", Ty::n(&gname).mptr()), Field::new("q", Ty::n(&gname))],
                    ..Default::default()
                }));
                generic_arg = Some(arg);
            }
        }
        let used = names_used_by(&p1, &cl);
        // (a generic-looking name is not something another module can define)
        let mut used_vec: Vec<String> = used.iter().filter(|n| !n.contains('<')).cloned().collect();
        if let Some(a) = &generic_arg {
            if !used_vec.contains(a) {
                used_vec.push(a.clone());
            }
        }
        // now and then also names of M's members and built-ins, as type names elsewhere
        let members = member_names_of(&p1, &cl);
        if !members.is_empty() && t.chance(1, 3) {
            used_vec.extend(members.into_iter().take(6));
            used_vec.extend(["u32", "bool", "void"].iter().map(|s| s.to_string()));
        }
        let mut p2 = p1.clone();
        let mut ops = vec![];
        let mut shares = false;
        let nops = 1 + t.below(3);
        let mut fresh_n = 0;
        for _ in 0..nops {
            let cl_paths: Vec<Vec<String>> = cl.iter().map(|&i| p1.mods[i].path.clone()).collect();
            let outside: Vec<usize> = (0..p2.mods.len()).filter(|&i| !cl_paths.contains(&p2.mods[i].path)).collect();
            match t.below(6) {
                0 | 1 => {
                    // fresh module, possibly nested, possibly reusing short names
                    fresh_n += 1;
                    let mut path = vec![];
                    let obs_path = p1.mods[obs].path.clone();
                    // the file name sorts after everything (z…) or before everything (a…)
                    let stem = format!("{}fresh{fresh_n}", if t.chance(1, 3) { "a" } else { "z" });
                    match t.below(6) {
                        0 | 1 => path.push(format!("zdir{}", t.below(2))),
                        // below the observed module (its name as a directory)
                        2 => path.extend(obs_path.iter().cloned()),
                        // next to the observed module
                        3 => path.extend(obs_path[..obs_path.len() - 1].iter().cloned()),
                        _ => {}
                    }
                    path.push(stem);
                    // or: a sibling of the (nested) observed module that is called like the first segment of one of
                    // its root-relative imports (game/entity.pyxis says `use math::Vec3;`, the new file is game/math.pyxis)
                    let mut sibling_import: Option<Vec<String>> = None;
                    if obs_path.len() >= 2 && !p1.mods[obs].uses.is_empty() && t.chance(1, 3) {
                        let u = p1.mods[obs].uses[t.below(p1.mods[obs].uses.len() as u64) as usize].clone();
                        if !u.is_empty() {
                            let mut sp: Vec<String> = obs_path[..obs_path.len() - 1].to_vec();
                            sp.push(u[0].clone());
                            if !p2.mods.iter().any(|x| x.path == sp) && !p1.mods.iter().any(|x| x.path == sp) {
                                path = sp;
                                sibling_import = Some(u);
                            }
                        }
                    }
                    // or: a child of the observed module called like one of its items (game/Entity.pyxis next to
                    // `type Entity` in game.pyxis: modules and items live in different tables)
                    if sibling_import.is_none() && t.chance(1, 6) {
                        if let Some(n) = p1.mods[obs].items.first().map(|i| i.name().to_string()) {
                            let mut cp = obs_path.clone();
                            cp.push(n);
                            if !p2.mods.iter().any(|x| x.path == cp) {
                                path = cp;
                            }
                        }
                    }
                    let mut m = Mod {
                        path,
                        ..Default::default()
                    };
                    if let Some(u) = &sibling_import {
                        // it defines what the import names (the last segment when that is a type, and the names M uses)
                        if let Some(last) = u.last() {
                            if u.len() >= 2 && !m.items.iter().any(|i| i.name() == last) {
                                m.items.push(simple_type(last, 2 * t.below(6), w));
                                shares = true;
                            }
                        }
                        for n in used_vec.iter().take(4) {
                            if !m.items.iter().any(|i| i.name() == n) && crate::refmodel::builtin_size(n).is_none() && n != "void" {
                                m.items.push(simple_type(n, 2 * t.below(6), w));
                            }
                        }
                    }
                    // a type named like the argument of M's generic-looking extern type
                    if let Some(a) = &generic_arg {
                        if t.chance(2, 3) && !m.items.iter().any(|i| i.name() == a) {
                            m.items.push(simple_type(a, 2 * t.below(6), w));
                            shares = true;
                        }
                    }
                    // extern values, backend text and impl blocks of its own
                    if t.chance(1, 4) {
                        m.ext_vals.push(ExtVal {
                            sty: 0,
                            vis: true,
                            name: p1.mods[obs].ext_vals.first().map(|e| e.name.clone()).unwrap_or_else(|| "zval".into()),
                            ty: Ty::n("u32"),
                            addr: Some(Num::d(0x7100 + fresh_n as i128)),
                            doc: vec![],
                        });
                    }
                    if t.chance(1, 4) {
                        m.backends.push(BackendBlk {
                            name: "rust".into(),
                            form: 0,
                            prologue: Some(format!("pub const PV_UNRELATED_{fresh_n}: u32 = 1;")),
                            epilogue: Some(format!("pub const PV_UNRELATED_E_{fresh_n}: u32 = 2;")),
                        });
                    }
                    let n = 1 + t.below(3);
                    for k in 0..n {
                        let name = if !used_vec.is_empty() && t.chance(2, 3) {
                            shares = true;
                            t.pick(&used_vec).clone()
                        } else {
                            format!("Zt{fresh_n}_{k}")
                        };
                        if m.items.iter().any(|i| i.name() == name) || m.ext_types.iter().any(|e| e.name == name) {
                            continue;
                        }
                        if t.chance(1, 4) {
                            m.ext_types.push(ExtType {
                                name,
                                size: Num::d(12),
                                align: Num::d(4),
                            });
                        } else {
                            m.items.push(simple_type(&name, t.below(30), w));
                        }
                    }
                    if t.chance(1, 4) {
                        let first_type = m.types().next().map(|t| t.name.clone());
                        if let Some(tn) = first_type {
                            let fname = p1.mods[obs].impls.iter().flat_map(|im| im.funcs.iter()).map(|f| f.name.clone()).next().unwrap_or_else(|| "zfn".into());
                            m.impls.push(Impl {
                                more: vec![],
                                ty: tn,
                                funcs: vec![Func {
                                    more: vec![],
                                    sty: 0,
                                    vis: true,
                                    name: fname,
                                    doc: vec![],
                                    args: vec![Arg::ConstSelf],
                                    ret: None,
                                    addr: Some(Num::d(0x7200 + fresh_n as i128)),
                                    index: None,
                                    cc: None,
                                }],
                            });
                        }
                    }
                    // a vftable block copied word for word from a type of M's closure, with types of its own under
                    // the names the signatures mention (same text, other meaning)
                    if t.chance(1, 3) {
                        let owners: Vec<TypeDef> = cl.iter().flat_map(|&i| p1.mods[i].types().filter(|t| t.vft.is_some()).cloned().collect::<Vec<_>>()).collect();
                        if !owners.is_empty() {
                            let src = owners[t.below(owners.len() as u64) as usize].clone();
                            let v = src.vft.clone().unwrap();
                            let mut mentioned: BTreeSet<String> = BTreeSet::new();
                            for f in &v.funcs {
                                for a in &f.args {
                                    if let Arg::Named(_, ty) = a {
                                        if let Some(n) = ty.leaf() {
                                            mentioned.insert(n.to_string());
                                        }
                                    }
                                }
                                if let Some(n) = f.ret.as_ref().and_then(|t| t.leaf()) {
                                    mentioned.insert(n.to_string());
                                }
                            }
                            for n in mentioned {
                                let builtin = crate::refmodel::builtin_size(&n).is_some() || n == "void";
                                if !builtin && !m.items.iter().any(|i| i.name() == n) && !m.ext_types.iter().any(|e| e.name == n) {
                                    m.items.push(simple_type(&n, 2 * t.below(6), w));
                                    shares = true;
                                }
                            }
                            let owner_name = format!("Zvt{fresh_n}");
                            if !m.items.iter().any(|i| i.name() == owner_name) {
                                m.items.push(Item::Type(TypeDef {
                                    vis: true,
                                    name: owner_name,
                                    vft: Some(v),
                                    ..Default::default()
                                }));
                            }
                        }
                    }
                    // an impl block for a type of the observed module, which the fresh module imports but does
                    // not define (the unrelated module depends on M, not M on it)
                    if t.chance(1, 4) {
                        if let Some(tn) = p1.mods[obs].types().next().map(|t| t.name.clone()) {
                            if !m.items.iter().any(|i| i.name() == tn) {
                                let mut up = p1.mods[obs].path.clone();
                                if t.chance(1, 2) {
                                    up.push(tn.clone());
                                }
                                m.uses.push(up);
                                m.impls.push(Impl {
                                    more: vec![],
                                    ty: tn,
                                    funcs: vec![Func {
                                        more: vec![],
                                        sty: 0,
                                        vis: true,
                                        name: format!("zdangling{fresh_n}"),
                                        doc: vec![],
                                        args: vec![Arg::ConstSelf],
                                        ret: None,
                                        addr: Some(Num::d(0x7300 + fresh_n as i128)),
                                        index: None,
                                        cc: None,
                                    }],
                                });
                            }
                        }
                    }
                    if p2.mods.iter().any(|x| x.path == m.path) {
                        continue;
                    }
                    ops.push(format!("add module {}", m.path_str()));
                    p2.mods.push(m);
                }
                2 | 3 if !outside.is_empty() => {
                    // add an item to an unrelated module
                    let i = outside[t.below(outside.len() as u64) as usize];
                    let name = if !used_vec.is_empty() && t.chance(2, 3) { t.pick(&used_vec).clone() } else { format!("Zadd{}", t.below(1000)) };
                    let m = &mut p2.mods[i];
                    if m.items.iter().any(|x| x.name() == name) || m.ext_types.iter().any(|e| e.name == name) || m.items.iter().any(|x| format!("{}Vftable", x.name()) == name) {
                        continue;
                    }
                    if used.contains(&name) {
                        shares = true;
                    }
                    ops.push(format!("add item {name} to {}", m.path_str()));
                    if t.chance(1, 5) {
                        m.items.push(Item::Enum(EnumDef {
                            sty: 0,
                            vis: true,
                            name,
                            doc: vec![],
                            base: "u16".into(),
                            variants: vec![Variant {
                                sty: 0,
                                name: "Only".into(),
                                value: Some(Num::d(7)),
                                default: false,
                                doc: vec![],
                            }],
                            singleton: None,
                            copyable: false,
                            cloneable: false,
                            defaultable: false,
                        }));
                    } else {
                        m.items.push(simple_type(&name, t.below(30), w));
                    }
                }
                4 if !outside.is_empty() => {
                    // remove an unrelated module that nobody imports
                    let i = outside[t.below(outside.len() as u64) as usize];
                    let path = p2.mods[i].path.clone();
                    let imported = p2.mods.iter().enumerate().any(|(j, m)| j != i && m.uses.iter().any(|u| *u == path || u[..u.len().saturating_sub(1)] == path[..]));
                    if imported {
                        continue;
                    }
                    ops.push(format!("remove module {}", p2.mods[i].path_str()));
                    p2.mods.remove(i);
                }
                _ => {
                    // reorder the modules (the order files are handed to add_module)
                    if p2.mods.len() >= 2 {
                        let i = t.below(p2.mods.len() as u64) as usize;
                        let j = t.below(p2.mods.len() as u64) as usize;
                        if i != j {
                            p2.mods.swap(i, j);
                            ops.push(format!("swap module positions {i} and {j}"));
                        }
                    }
                }
            }
        }
        let observed = p1.mods[obs].path.clone();
        Case {
            p1,
            p2,
            w,
            observed,
            ops,
            shares_name: shares,
        }
    }
    fn judge(&self, c: &Case) -> Outcome {
        if c.ops.is_empty() {
            return Outcome::discard("no-change-applicable");
        }
        let r1 = build_prog(&c.p1, c.w as usize);
        let r2 = build_prog(&c.p2, c.w as usize);
        let (b1, b2) = match (&r1, &r2) {
            (Res::Panic(p), _) | (_, Res::Panic(p)) => return Outcome::fail("panic", p.clone()),
            (Res::Ok(a), Res::Ok(b)) => (a, b),
            (Res::Err(_), _) => return Outcome::discard("original-rejected"),
            (_, Res::Err(e)) => {
                let key: String = e.chars().filter(|c| !c.is_ascii_digit()).take(50).collect();
                return Outcome::discard(&format!("changed-program-rejected: {key}"));
            }
        };
        let file = format!("{}.rs", c.observed.join("/"));
        let (Some(f1), Some(f2)) = (b1.files.get(&file), b2.files.get(&file)) else {
            return Outcome::fail("file-missing", format!("{file} missing from one of the builds"));
        };
        let obs_idx = c.p1.mods.iter().position(|m| m.path == c.observed).unwrap_or(0);
        let cross = !c.p1.mods[obs_idx].uses.is_empty();
        let mut classes: Vec<String> = c.ops.iter().map(|o| format!("op:{}", o.split(' ').take(2).collect::<Vec<_>>().join("-"))).collect();
        classes.sort();
        classes.dedup();
        if c.shares_name {
            classes.push("shares-short-name".into());
        }
        if c.p1.mods[obs_idx].ext_types.iter().any(|e| e.name.contains('<')) {
            classes.push("generic-looking-extern-type".into());
        }
        if f1 == f2 {
            Outcome::pass(cross && c.shares_name).with_classes(classes)
        } else {
            let (l1, l2): (Vec<&str>, Vec<&str>) = (f1.lines().collect(), f2.lines().collect());
            let i = l1.iter().zip(l2.iter()).position(|(a, b)| a != b).unwrap_or(l1.len().min(l2.len()));
            Outcome::fail(
                "output-changed",
                format!("ops {:?} outside the closure of {} changed {file} from line {}:\n  before: {}\n  after : {}", c.ops, c.observed.join("::"), i + 1, l1.get(i).unwrap_or(&"<eof>"), l2.get(i).unwrap_or(&"<eof>")),
            )
        }
    }
    fn show(&self, c: &Case) -> Value {
        json!({"width": c.w, "observed": c.observed.join("::"), "ops": c.ops, "original": prog_text(&c.p1), "changed": prog_text(&c.p2)})
    }
}

pub fn props() -> Vec<Box<dyn DynProp>> {
    vec![Box::new(Unrelated)]
}

pub fn run(ctx: &mut Ctx) {
    let q = ctx.quick();
    ctx.run(&Unrelated, &Params::new(if q { 12_000 } else { 400_000 }, 100, 2500).shrink(300));
}
