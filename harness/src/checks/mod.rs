pub mod c18;
pub mod c03;
pub mod c09;
