pub mod c18;
pub mod c03;
