pub mod c18;
