//! Shared by the L3 checks (C04, C05, C06, C07, C08, C15).

use serde::{Deserialize, Serialize};
use serde_json::{json, Value};

use crate::driver::*;
use crate::genprog::*;
use crate::l2::*;
use crate::l3::*;
use crate::model::*;
use crate::pipeline::*;
use crate::tape::Tape;

#[derive(Clone, Serialize, Deserialize)]
pub struct Case {
    pub prog: Prog,
    pub seed: u64,
}

pub fn show_case(c: &Case) -> Value {
    json!({"width": 8, "value_seed": c.seed, "pyxis": prog_text(&c.prog)})
}

pub fn l3_cfg(t: &mut Tape) -> GenCfg {
    let mut cfg = GenCfg::rich(8);
    cfg.int_args_only = true;
    cfg.mappable_addrs = true;
    cfg.backends = false;
    cfg.max_items = 4 + t.below(14 * crate::driver::scale());
    cfg.max_fields = 5;
    cfg.max_gap = 24;
    // one program in eight re-declares an inherited function / repeats a function or member name:
    // rejected today, and judged like any other program should it ever be accepted
    cfg.clashes = 8;
    cfg.clash_renames = false;
    cfg.clash_field_renames = true;
    // two types of one short name in different modules (distinct types that only their path tells apart)
    cfg.alias_types = 4;
    cfg
}

/// Give a member of a type that inherits its table through its first base the name pyxis uses for
/// the pointer field it generates elsewhere (`vftable`): accepted there, and the accessor must still
/// read the base's pointer.
pub fn name_member_vftable(t: &mut Tape, prog: &mut crate::model::Prog) {
    use crate::model::{Item, Ty};
    let mut sites = vec![];
    for (mi, m) in prog.mods.iter().enumerate() {
        for (ii, it) in m.items.iter().enumerate() {
            let Item::Type(td) = it else { continue };
            if !td.fields.first().map(|f| f.base).unwrap_or(false) {
                continue;
            }
            for (fi, f) in td.fields.iter().enumerate() {
                // integer and pointer members: a wrong accessor that reads them still compiles
                let simple = match &f.ty {
                    Ty::CPtr(_) | Ty::MPtr(_) => true,
                    Ty::Named(n) => matches!(n.as_str(), "u32" | "u64" | "i32" | "i64" | "u16" | "u8"),
                    _ => false,
                };
                if !f.base && f.name != "_" && simple {
                    sites.push((mi, ii, fi));
                }
            }
        }
    }
    if sites.is_empty() {
        return;
    }
    let (mi, ii, fi) = sites[t.below(sites.len() as u64) as usize];
    if let Item::Type(td) = &mut prog.mods[mi].items[ii] {
        td.fields[fi].name = "vftable".into();
        // a private `vftable: T` reads as the start of a vftable block: only `pub vftable: T` can be written
        td.fields[fi].vis = true;
    }
}

pub struct L3Result {
    pub checked: usize,
    pub skipped: usize,
    pub failures: Vec<String>,
    pub skipped_sigs: usize,
    pub tests_of_kind: usize,
}

/// Build with pyxis, generate the driver, compile, run, compare the tests of the given kinds.
pub fn run_l3(c: &Case, kinds: &[&str]) -> Result<L3Result, Outcome> {
    let built = match build_prog(&c.prog, 8) {
        Res::Ok(b) => b,
        Res::Err(e) => {
            let key: String = e.chars().filter(|c| !c.is_ascii_digit()).take(60).collect();
            return Err(Outcome::discard(&format!("pyxis-rejects: {key}")));
        }
        Res::Panic(p) => return Err(Outcome::fail("panic", p)),
    };
    let drv = Driver::build(&c.prog, c.seed);
    let (asm, expects, skipped_sigs) = drv.assemble(&c.prog, &built);
    let tests_of_kind = expects.iter().filter(|e| kinds.contains(&e.kind.as_str())).count();
    if tests_of_kind == 0 {
        return Err(Outcome::discard("no-test-of-this-kind-in-program"));
    }
    let out = rustc_run(asm);
    if let Some(e) = &out.machinery_error {
        return Err(Outcome::discard(&format!("machinery: {}", e.chars().take(100).collect::<String>())));
    }
    if !out.compile_errors.is_empty() {
        // does the error point into harness-written test code, or into emitted code?
        // The test functions are appended to the emitted files: an error at a line beyond the emitted
        // text (or in the crate root) is in harness code. When the emitted text itself has no error,
        // the driver -- written against the declared signatures -- does not fit what was emitted.
        let emitted_lines = |file: &str| built.files.get(file).map(|t| t.lines().count());
        let in_emitted = out.compile_errors.iter().any(|d| matches!(emitted_lines(&d.file), Some(n) if d.line <= n));
        let d = &out.compile_errors[0];
        let in_test_code = !in_emitted || d.rendered.contains("pv_test_") || d.rendered.contains("crate::rt::");
        let summary = super::l2common::diag_summary(&out.compile_errors);
        if in_test_code {
            // e.g. a declared return type that the driver binds: a wrapper with a different signature lands here
            return Err(Outcome::fail("driver-does-not-compile", format!("the driver written against the declared signatures does not compile:\n{summary}")));
        }
        return Err(Outcome::discard("emitted-crate-does-not-compile (C13's business)"));
    }
    let (checked, skipped, mut failures) = compare(&expects, &out.stdout, kinds);
    if !out.status.contains("exit status: 0") && !failures.is_empty() {
        failures.insert(0, format!("driver ended with {}; stderr: {}", out.status, out.stderr.chars().take(600).collect::<String>()));
    }
    if !out.status.contains("exit status: 0") && failures.is_empty() {
        failures.push(format!("driver ended with {} after printing {} lines; stderr: {}", out.status, out.stdout.lines().count(), out.stderr.chars().take(400).collect::<String>()));
    }
    Ok(L3Result {
        checked,
        skipped,
        failures,
        skipped_sigs,
        tests_of_kind,
    })
}

pub fn bucket(n: usize) -> &'static str {
    match n {
        0 => "0",
        1..=4 => "1-4",
        5..=19 => "5-19",
        _ => "20+",
    }
}
