//! C15 — singleton and extern-value accessors address the declared location.

use serde::{Deserialize, Serialize};
use serde_json::{json, Value};

use super::l3common::*;
use crate::driver::*;
use crate::genprog::gen_prog;
use crate::model::*;
use crate::pipeline::*;
use crate::tape::Tape;

pub struct Accessors;
impl Prop for Accessors {
    type Case = Case;
    fn name(&self) -> String {
        "C15/accessors".into()
    }
    fn rule(&self) -> String {
        "programs (width 8) with #[singleton(A)] on types and copyable enums and `extern name: T` with #[address(A)] for scalars, pointers, arrays and user types; A in any spelling, mappable on the host, 64-aligned. The driver maps the page(s) at A. Type singleton: with the word at A null, get() is None; with it set to an object's address, get() is Some(r) with r == that address (one indirection). Enum singleton: a variant is stored at A, get() returns it (no indirection). Extern value: get_<name>() as usize == A, a byte written through it is visible at A, and the driver's binding to `&'static mut <declared T>` compiles. Non-trivial: >=1 accessor executed at an address with two distinct non-zero hex digits".into()
    }
    fn gen(&self, t: &mut Tape) -> Case {
        let mut cfg = l3_cfg(t);
        cfg.impls = false;
        cfg.vfts = t.chance(1, 3);
        cfg.bases = t.chance(1, 3);
        cfg.max_items = 3 + t.below(8);
        let (mut prog, _, _) = gen_prog(t, cfg);
        // more singletons than the generic generator gives
        let mut page = 0x200u64;
        for m in prog.mods.iter_mut() {
            for it in m.items.iter_mut() {
                let want = t.chance(1, 2);
                match it {
                    Item::Type(td) if td.singleton.is_none() && want => {
                        page += 1;
                        td.singleton = Some(Num { v: (0x2_0000_0000u64 + page * 0x1000 + 64 * t.below(32)) as i128, sp: t.below(6) as u8 });
                    }
                    Item::Enum(e) if e.singleton.is_none() && e.copyable && want => {
                        page += 1;
                        e.singleton = Some(Num { v: (0x3_0000_0000u64 + page * 0x1000 + 64 * t.below(32)) as i128, sp: t.below(6) as u8 });
                    }
                    _ => {}
                }
            }
        }
        Case { prog, seed: t.u64() }
    }
    fn judge(&self, c: &Case) -> Outcome {
        let r = match run_l3(c, &["singleton", "extern"]) {
            Ok(r) => r,
            Err(o) => return o,
        };
        if !r.failures.is_empty() {
            return Outcome::fail("wrong-location", r.failures.join("\n"));
        }
        Outcome::pass(r.checked >= 1).class(&format!("accessors:{}", bucket(r.checked))).class(&format!("unmappable:{}", bucket(r.skipped)))
    }
    fn show(&self, c: &Case) -> Value {
        show_case(c)
    }
}

#[derive(Clone, Serialize, Deserialize)]
pub struct NoAddr {
    pub ty: Ty,
    pub w: u64,
    pub with_addr: bool,
}
pub struct MissingAddress;
impl Prop for MissingAddress {
    type Case = NoAddr;
    fn name(&self) -> String {
        "C15/missing-address".into()
    }
    fn rule(&self) -> String {
        "`extern name: T` without #[address] over scalar, pointer and array T must be an error; the same declaration with an address is the accepted control".into()
    }
    fn gen(&self, t: &mut Tape) -> NoAddr {
        let base = Ty::n(*t.pick(&["u8", "u32", "u64", "f32", "i16"]));
        let ty = match t.below(3) {
            0 => base,
            1 => base.mptr(),
            _ => base.arr(1 + t.below(5)),
        };
        NoAddr {
            ty,
            w: if t.chance(1, 2) { 8 } else { 4 },
            with_addr: t.chance(1, 3),
        }
    }
    fn judge(&self, c: &NoAddr) -> Outcome {
        let prog = Prog {
            mods: vec![Mod {
                path: vec!["m".into()],
                ext_vals: vec![ExtVal {
                    vis: true,
                    name: "g".into(),
                    ty: c.ty.clone(),
                    addr: if c.with_addr { Some(Num::d(0x1234)) } else { None },
                    doc: vec![],
                }],
                ..Default::default()
            }],
        };
        match (build_prog(&prog, c.w as usize), c.with_addr) {
            (Res::Panic(p), _) => Outcome::fail("panic", p),
            (Res::Ok(_), true) | (Res::Err(_), false) => Outcome::pass(true).class(if c.with_addr { "control" } else { "rejected" }),
            (Res::Ok(_), false) => Outcome::fail("accepted-without-address", "extern value without #[address] was accepted".into()),
            (Res::Err(e), true) => Outcome::fail("control-rejected", e),
        }
    }
    fn show(&self, c: &NoAddr) -> Value {
        json!({"ty": c.ty.print(), "width": c.w, "with_address": c.with_addr})
    }
}

pub fn props() -> Vec<Box<dyn DynProp>> {
    vec![Box::new(MissingAddress), Box::new(Accessors)]
}

pub fn run(ctx: &mut Ctx) {
    let q = ctx.quick();
    ctx.run(&MissingAddress, &Params::new(if q { 300 } else { 3000 }, 4, 10));
    ctx.run(&Accessors, &Params::new(if q { 300 } else { 10_000 }, 200, 2500).shrink(60));
}
