//! C15 — singleton and extern-value accessors address the declared location.

use serde::{Deserialize, Serialize};
use serde_json::{json, Value};

use super::l3common::*;
use crate::driver::*;
use crate::genprog::gen_prog;
use crate::model::*;
use crate::pipeline::*;
use crate::tape::Tape;

pub struct Accessors;
impl Prop for Accessors {
    type Case = Case;
    crate::prog_shrink!();
    fn name(&self) -> String {
        "C15/accessors".into()
    }
    fn rule(&self) -> String {
        "programs (width 8) with #[singleton(A)] on types and copyable enums and `extern name: T` with #[address(A)] for scalars, pointers, arrays and user types; A in any spelling, mappable on the host, 64-aligned. The driver maps the page(s) at A. Type singleton: with the word at A null, get() is None; with it set to an object's address, get() is Some(r) with r == that address (one indirection). Enum singleton: a variant is stored at A, get() returns it (no indirection). Extern value: get_<name>() as usize == A, a byte written through it is visible at A, and the driver's binding to `&'static mut <declared T>` compiles. Non-trivial: >=1 accessor executed at an address with two distinct non-zero hex digits".into()
    }
    fn gen(&self, t: &mut Tape) -> Case {
        let mut cfg = l3_cfg(t);
        cfg.impls = false;
        cfg.vfts = t.chance(1, 3);
        cfg.bases = t.chance(1, 3);
        cfg.max_items = 3 + t.below(8);
        let (mut prog, _, _) = gen_prog(t, cfg);
        // more singletons than the generic generator gives
        let mut page = 0x200u64;
        for m in prog.mods.iter_mut() {
            for it in m.items.iter_mut() {
                let want = t.chance(1, 2);
                match it {
                    Item::Type(td) if td.singleton.is_none() && want => {
                        page += 1;
                        td.singleton = Some(Num { v: (0x2_0000_0000u64 + page * 0x1000 + 64 * t.below(32)) as i128, sp: t.below(6) as u8 });
                    }
                    Item::Enum(e) if e.singleton.is_none() && e.copyable && want => {
                        page += 1;
                        e.singleton = Some(Num { v: (0x3_0000_0000u64 + page * 0x1000 + 64 * t.below(32)) as i128, sp: t.below(6) as u8 });
                    }
                    _ => {}
                }
            }
        }
        Case { prog, seed: t.u64() }
    }
    fn judge(&self, c: &Case) -> Outcome {
        let r = match run_l3(c, &["singleton", "extern"]) {
            Ok(r) => r,
            Err(o) => return o,
        };
        if !r.failures.is_empty() {
            return Outcome::fail("wrong-location", r.failures.join("\n"));
        }
        Outcome::pass(r.checked >= 1).class(&format!("accessors:{}", bucket(r.checked))).class(&format!("unmappable:{}", bucket(r.skipped)))
    }
    fn show(&self, c: &Case) -> Value {
        show_case(c)
    }
}

#[derive(Clone, Serialize, Deserialize)]
pub struct NoAddr {
    /// (type, has an address)
    pub vals: Vec<(Ty, bool)>,
    pub w: u64,
}
pub struct MissingAddress;
impl Prop for MissingAddress {
    type Case = NoAddr;
    fn name(&self) -> String {
        "C15/missing-address".into()
    }
    fn rule(&self) -> String {
        "a module with 1-4 extern values over scalar, pointer and array types, each with or without #[address] (distinct addresses), in any order. Oracle: Err iff at least one has no address; with all addresses present the build is Ok and each accessor's body mentions its own address and no other. Non-trivial: >=2 extern values".into()
    }
    fn gen(&self, t: &mut Tape) -> NoAddr {
        let n = 1 + t.below(4);
        let mut vals = vec![];
        for _ in 0..n {
            let base = Ty::n(*t.pick(&["u8", "u32", "u64", "f32", "i16"]));
            let ty = match t.below(3) {
                0 => base,
                1 => base.mptr(),
                _ => base.arr(1 + t.below(5)),
            };
            vals.push((ty, t.chance(2, 3)));
        }
        NoAddr {
            vals,
            w: if t.chance(1, 2) { 8 } else { 4 },
        }
    }
    fn judge(&self, c: &NoAddr) -> Outcome {
        let addr_of = |k: usize| 0x1230u64 + 0x1000 * k as u64;
        let prog = Prog {
            mods: vec![Mod {
                path: vec!["m".into()],
                ext_vals: c
                    .vals
                    .iter()
                    .enumerate()
                    .map(|(k, (ty, has))| ExtVal {
                        sty: 0,
                        vis: true,
                        name: format!("g{k}"),
                        ty: ty.clone(),
                        addr: if *has { Some(Num::d(addr_of(k) as i128)) } else { None },
                        doc: vec![],
                    })
                    .collect(),
                ..Default::default()
            }],
        };
        let all = c.vals.iter().all(|(_, h)| *h);
        let nt = c.vals.len() >= 2;
        match (build_prog(&prog, c.w as usize), all) {
            (Res::Panic(p), _) => Outcome::fail("panic", p),
            (Res::Err(_), false) => Outcome::pass(nt).class("rejected"),
            (Res::Ok(_), false) => Outcome::fail("accepted-without-address", format!("{} extern values, addresses present: {:?}: accepted", c.vals.len(), c.vals.iter().map(|v| v.1).collect::<Vec<_>>())),
            (Res::Err(e), true) => Outcome::fail("control-rejected", e),
            (Res::Ok(b), true) => {
                let v = match crate::rsview::view(&b.files["m.rs"]) {
                    Ok(v) => v,
                    Err(e) => return Outcome::fail("unparsable", e),
                };
                for k in 0..c.vals.len() {
                    let Some(f) = v.free_fns.iter().find(|f| f.name == format!("get_g{k}")) else {
                        return Outcome::fail("accessor-missing", format!("get_g{k}"));
                    };
                    // (array lengths are integer literals of the body too)
                    let others: Vec<u128> = (0..c.vals.len()).filter(|j| *j != k).map(|j| addr_of(j) as u128).collect();
                    if !f.body_ints.contains(&(addr_of(k) as u128)) || f.body_ints.iter().any(|x| others.contains(x)) {
                        return Outcome::fail("wrong-address", format!("get_g{k}: integer literals in the body {:x?}, expected its own address {:x} and no other accessor's", f.body_ints, addr_of(k)));
                    }
                }
                Outcome::pass(nt).class("control")
            }
        }
    }
    fn show(&self, c: &NoAddr) -> Value {
        json!({"vals": c.vals.iter().map(|(t, h)| format!("{}{}", t.print(), if *h { " @addr" } else { " (no address)" })).collect::<Vec<_>>(), "width": c.w})
    }
}

// ------------------------------------------------------------ declared type under competing definitions

/// "With the declared type": when the type name of an extern value is defined in several modules, the
/// accessor must name the definition the scoping rules select.
pub struct DeclaredType;
impl Prop for DeclaredType {
    type Case = crate::checks::c11::Case;
    crate::prog_shrink!();
    fn name(&self) -> String {
        "C15/declared-type".into()
    }
    fn rule(&self) -> String {
        "the module sets of C11 (one short name defined in several modules with distinct sizes, competing by-name and whole-module imports, optional local definition, shuffled module order), whose observer module declares `#[address(A)] extern gv: Name;`. Oracle (the one of C11/scoping, which includes the accessor): `get_gv()` returns `&'static mut <fully qualified path of the definition the scoping rules select>`; no binding => Err. Non-trivial as in C11".into()
    }
    fn gen(&self, t: &mut Tape) -> Self::Case {
        crate::checks::c11::gen_case(t)
    }
    fn judge(&self, c: &Self::Case) -> Outcome {
        crate::checks::c11::Scoping.judge(c)
    }
    fn show(&self, c: &Self::Case) -> Value {
        crate::checks::c11::Scoping.show(c)
    }
}

pub fn props() -> Vec<Box<dyn DynProp>> {
    vec![Box::new(MissingAddress), Box::new(Accessors), Box::new(DeclaredType)]
}

pub fn run(ctx: &mut Ctx) {
    let q = ctx.quick();
    ctx.run(&MissingAddress, &Params::new(if q { 3000 } else { 60_000 }, 6, 24));
    ctx.run(&Accessors, &Params::new(if q { 1500 } else { 50_000 }, 200, 2500).shrink(60));
    ctx.run(&DeclaredType, &Params::new(if q { 10_000 } else { 300_000 }, 40, 400));
}
