//! C06 — a derived type's vftable extends its first base's vftable and shares its pointer.

use serde::{Deserialize, Serialize};
use serde_json::{json, Value};

use super::l2common as l2c;
use super::l3common::*;
use crate::driver::*;
use crate::genprog::{gen_prog, GenCfg, CCS};
use crate::l2::*;
use crate::model::*;
use crate::pipeline::*;
use crate::refmodel::*;
use crate::rsview;
use crate::tape::Tape;

// ------------------------------------------------------------ verdict (L0)

#[derive(Clone, Serialize, Deserialize)]
pub struct VerdictCase {
    pub prog: Prog,
    pub w: u64,
    pub mutation: String,
}

pub struct Verdict_;

const INTS: &[&str] = &["u8", "u16", "u32", "u64", "i8", "i16", "i32", "i64", "bool"];

fn rand_vfunc(t: &mut Tape, name: String) -> Func {
    let mut args = vec![if t.chance(1, 2) { Arg::ConstSelf } else { Arg::MutSelf }];
    let n = t.below(4);
    for k in 0..n {
        let ty = rand_sig_ty(t);
        args.push(Arg::Named(format!("p{k}"), ty));
    }
    Func {
        more: vec![],
        sty: 0,
        vis: t.chance(2, 3),
        name,
        doc: vec![],
        args,
        ret: if t.chance(1, 2) { Some(if t.chance(1, 3) { rand_sig_ty(t) } else { Ty::n(*t.pick(INTS)) }) } else { None },
        addr: None,
        index: None,
        cc: if t.chance(1, 3) { Some(t.pick(CCS).to_string()) } else { None },
    }
}

/// a parameter / return type: integers, pointers of both kinds (also to the root type and two levels
/// deep), small arrays
fn rand_sig_ty(t: &mut Tape) -> Ty {
    let int = Ty::n(*t.pick(INTS));
    match t.below(10) {
        0..=3 => int,
        4 => int.cptr(),
        5 => int.mptr(),
        6 => int.arr(1 + t.below(4)),
        7 => {
            if t.chance(1, 2) {
                Ty::n("L0").cptr()
            } else {
                Ty::n("L0").mptr()
            }
        }
        8 => int.cptr().mptr(),
        _ => int.arr(2).cptr(),
    }
}

/// a type that differs from `ty` in exactly one place: the leaf, the kind of one pointer level, one
/// array length, or one level of indirection more or less
fn mutate_sig_ty(t: &mut Tape, ty: &Ty) -> Ty {
    match ty {
        Ty::Named(n) => {
            if n == "L0" {
                Ty::n("Side")
            } else if t.chance(1, 6) {
                ty.clone().cptr()
            } else {
                Ty::Named(other_int(t, n))
            }
        }
        Ty::CPtr(e) => match t.below(3) {
            0 => Ty::MPtr(e.clone()),
            1 => Ty::CPtr(Box::new(mutate_sig_ty(t, e))),
            _ => (**e).clone(),
        },
        Ty::MPtr(e) => match t.below(3) {
            0 => Ty::CPtr(e.clone()),
            1 => Ty::MPtr(Box::new(mutate_sig_ty(t, e))),
            _ => (**e).clone(),
        },
        Ty::Arr(e, n) => {
            if t.chance(1, 2) {
                Ty::Arr(e.clone(), n + 1)
            } else {
                Ty::Arr(Box::new(mutate_sig_ty(t, e)), *n)
            }
        }
        other => other.clone(),
    }
}

fn other_int(t: &mut Tape, cur: &str) -> String {
    let others: Vec<&str> = INTS.iter().copied().filter(|c| *c != cur).collect();
    t.pick(&others).to_string()
}

pub fn gen_verdict_case(t: &mut Tape) -> VerdictCase {
    gen_verdict_case_with(t, None)
}

/// `force`: the mutation choice for the last level (0 none, 2 rename, 3 receiver, 4 parameter, 5 return,
/// 6 calling convention, 7 missing slot, 8 swap, 9 default convention spelled out, 10 size dropped, 11 function moved by an index) instead of a drawn one
pub fn gen_verdict_case_with(t: &mut Tape, force: Option<u64>) -> VerdictCase {
    let w = if t.chance(1, 2) { 8 } else { 4 };
    let depth = 1 + t.below(4) as usize; // number of derivation steps
    let has_cell = t.chance(1, 2);
    let cell_first = t.chance(1, 2);
    let mut m = Mod {
        path: vec!["h".into()],
        ..Default::default()
    };
    // root with a table
    let mut counter = 0;
    let mut table: Vec<Func> = vec![];
    // also an empty root table (`vftable {}`): the pointer is there all the same
    let n0 = t.below(5);
    let mut next_slot = 0u64;
    for _ in 0..n0 {
        counter += 1;
        let mut f = rand_vfunc(t, format!("v{counter}"));
        if t.chance(1, 5) {
            next_slot += 1 + t.below(2);
            f.index = Some(Num::d(next_slot as i128));
        }
        next_slot += 1;
        table.push(f);
    }
    // a quarter of the roots reserve further slots with a declared table size
    let natural = |funcs: &Vec<Func>| vft_slots(&Vft { size: None, funcs: funcs.clone() }).len;
    let root_size = if t.chance(1, 4) { Some(natural(&table) + 1 + t.below(3)) } else { None };
    // length of the table the next level has to restate
    let mut base_len = root_size.unwrap_or(natural(&table));
    m.items.push(Item::Type(TypeDef {
        vis: true,
        name: "L0".into(),
        packed: true,
        vft: Some(Vft { size: root_size.map(|s| Num::d(s as i128)), funcs: table.clone() }),
        fields: vec![Field::new("x", Ty::n("u32")), Field::new("pad", Ty::Unk(w - 4))],
        ..Default::default()
    }));
    // a second, unrelated base with its own table (never constrains the derived block)
    m.items.push(Item::Type(TypeDef {
        vis: true,
        name: "Side".into(),
        packed: true,
        vft: Some(Vft {
            size: None,
            funcs: vec![rand_vfunc(t, "side_fn".into())],
        }),
        ..Default::default()
    }));
    let mut mutation = "none".to_string();
    // Some(shadow): the last level goes into a second module that imports its base by name; with `shadow` that
    // module has a type `L0` of its own (the block's text is the base's, its meaning is not), without it
    // imports the root's `L0` by name (a faithful restatement across modules)
    let mut other_module: Option<bool> = None;
    let mut second = Mod {
        path: vec!["h2".into()],
        ..Default::default()
    };
    for level in 1..=depth {
        let last = level == depth;
        let mut block = table.clone();
        // extend
        let extra = t.below(3);
        for e in 0..extra {
            counter += 1;
            let mut f = rand_vfunc(t, format!("v{counter}"));
            // the first new function goes behind the slots the base reserves
            if e == 0 && base_len > natural(&table) {
                f.index = Some(Num::d(base_len as i128));
            }
            block.push(f);
        }
        // a block that ends before the base table does restates the reserved slots with a size
        let mut own_size = if natural(&block) < base_len { Some(base_len) } else { None };
        let mut own_block = Some(block.clone());
        if !last && t.chance(1, 3) {
            own_block = None; // inherits the table unchanged
        }
        if last {
            // one mutation of the compatible prefix (or none)
            let k = t.below(table.len().max(1) as u64) as usize;
            let mut drawn = t.below(14);
            // 12 / 13: the last level lives in a module of its own; 12 only when a base slot mentions `L0`
            let mentions_l0 = |f: &Func| f.args.iter().any(|a| matches!(a, Arg::Named(_, ty) if ty.leaf() == Some("L0"))) || f.ret.as_ref().map(|r| r.leaf() == Some("L0")).unwrap_or(false);
            // (at depth 1 the base *is* L0 and has to be imported by name, which would win over the local type)
            if drawn == 12 && (!table.iter().any(mentions_l0) || depth < 2) {
                drawn = 13;
            }
            // 10: the declared size that restates the base's reserved slots is dropped (only when there is one)
            if drawn == 10 && own_size.is_none() {
                drawn = 0;
            }
            // nothing to mutate in an empty base table
            let choice = if table.is_empty() { 0 } else { force.unwrap_or(drawn) };
            let b = own_block.as_mut().unwrap();
            match choice {
                0 | 1 => {}
                2 => {
                    b[k].name = format!("{}_renamed", b[k].name);
                    mutation = format!("rename slot {k}");
                }
                3 => {
                    b[k].args[0] = if b[k].args[0] == Arg::ConstSelf { Arg::MutSelf } else { Arg::ConstSelf };
                    mutation = format!("receiver of slot {k}");
                }
                4 => {
                    let named: Vec<usize> = (0..b[k].args.len()).filter(|&i| matches!(b[k].args[i], Arg::Named(..))).collect();
                    if !named.is_empty() {
                        // any parameter, not only the first
                        let ai = named[t.below(named.len() as u64) as usize];
                        if let Arg::Named(_, ty) = &mut b[k].args[ai] {
                            let kind = match ty {
                                Ty::CPtr(_) | Ty::MPtr(_) => "pointer",
                                Ty::Arr(..) => "array",
                                _ => "scalar",
                            };
                            *ty = mutate_sig_ty(t, ty);
                            mutation = format!("parameter type of slot {k} ({kind} parameter #{})", ai);
                        }
                    } else {
                        b[k].args.push(Arg::Named("extra".into(), Ty::n("u8")));
                        mutation = format!("extra parameter on slot {k}");
                    }
                }
                5 => {
                    match &b[k].ret {
                        None => b[k].ret = Some(Ty::n("u32")),
                        Some(r) => {
                            let cur = r.leaf().unwrap_or("u8").to_string();
                            let _ = cur;
                            let r2 = r.clone();
                            if t.chance(1, 3) {
                                b[k].ret = None
                            } else {
                                b[k].ret = Some(mutate_sig_ty(t, &r2))
                            }
                        }
                    }
                    mutation = format!("return type of slot {k}");
                }
                6 => {
                    let eff = Model::expected_cc(&b[k]);
                    let others: Vec<&str> = CCS.iter().copied().filter(|c| *c != eff).collect();
                    b[k].cc = Some(t.pick(&others).to_string());
                    mutation = format!("calling convention of slot {k}");
                }
                7 => {
                    // the last base slot is missing (and nothing added)
                    b.truncate(table.len() - 1);
                    mutation = "last base slot missing".into();
                }
                8 => {
                    if table.len() >= 2 {
                        let j = (k + 1) % table.len();
                        // swapping only changes something when the two differ
                        let (mut a, mut c) = (b[k].clone(), b[j].clone());
                        std::mem::swap(&mut a.index, &mut c.index);
                        if a != c {
                            b[k] = c;
                            b[j] = a;
                            mutation = format!("slots {k} and {j} swapped");
                        }
                    }
                }
                10 => {
                    own_size = None;
                    mutation = "reserved base slots not restated".into();
                }
                12 => {
                    other_module = Some(true);
                    mutation = "same text in another module where `L0` is another type".into();
                }
                13 => {
                    other_module = Some(false);
                }
                11 => {
                    // the last inherited function is given an index one slot further on: an unnamed slot now
                    // stands where the base has it
                    let last_k = table.len() - 1;
                    let slots = vft_slots(&Vft { size: None, funcs: b.clone() });
                    let old = slots.slot[last_k];
                    b[last_k].index = Some(Num::d(old as i128 + 1));
                    // functions after it keep following it; a restated size must still cover the table
                    for f in b.iter_mut().skip(last_k + 1) {
                        if let Some(ix) = &mut f.index {
                            ix.v += 1;
                        }
                    }
                    if let Some(sz) = own_size {
                        own_size = Some(sz + 1);
                    }
                    mutation = "inherited function moved to a later index".into();
                }
                _ => {
                    // spelling the default convention explicitly is not a change
                    if b[k].cc.is_none() {
                        b[k].cc = Some(Model::expected_cc(&b[k]));
                    }
                }
            }
        }
        let mut fields = vec![];
        let mut base0 = Field::new("base", Ty::Named(format!("L{}", level - 1)));
        base0.base = true;
        fields.push(base0);
        if t.chance(1, 3) {
            let mut side = Field::new("side", Ty::n("Side"));
            side.base = true;
            fields.push(side);
        }
        fields.push(Field::new(&format!("own{level}"), Ty::n("u64")));
        // a member (or an array of members) of a plain type of the program, declared before or after the chain
        let mut uses_cell = false;
        if has_cell && t.chance(1, 2) {
            uses_cell = true;
            let ty = if t.chance(2, 3) { Ty::n("Cell").arr(1 + t.below(3)) } else { Ty::n("Cell") };
            fields.push(Field::new(&format!("cells{level}"), ty));
        }
        let level_type = Item::Type(TypeDef {
            vis: true,
            name: format!("L{level}"),
            packed: true,
            vft: own_block.clone().map(|funcs| Vft { size: own_size.map(|s| Num::d(s as i128)), funcs }),
            fields,
            ..Default::default()
        });
        match (last, other_module) {
            (true, Some(shadow)) => {
                second.uses.push(vec!["h".into(), format!("L{}", level - 1)]);
                second.uses.push(vec!["h".into(), "Side".into()]);
                if uses_cell {
                    second.uses.push(vec!["h".into(), "Cell".into()]);
                }
                if shadow {
                    second.items.push(Item::Type(TypeDef {
                        vis: true,
                        name: "L0".into(),
                        packed: true,
                        fields: vec![Field::new("other", Ty::Unk(3))],
                        ..Default::default()
                    }));
                } else if level > 1 {
                    second.uses.push(vec!["h".into(), "L0".into()]);
                }
                second.items.push(level_type);
            }
            _ => m.items.push(level_type),
        }
        if let Some(b) = own_block {
            if !last {
                base_len = own_size.unwrap_or(natural(&b)).max(natural(&b));
                table = b;
            }
        }
    }
    if has_cell {
        let cell = Item::Type(TypeDef {
            vis: true,
            name: "Cell".into(),
            packed: true,
            fields: vec![Field::new("a", Ty::n("u32")), Field::new("b", Ty::n("u32"))],
            ..Default::default()
        });
        if cell_first {
            m.items.insert(0, cell);
        } else {
            m.items.push(cell);
        }
    }
    let mut mods = vec![m];
    if !second.items.is_empty() {
        mods.push(second);
    }
    VerdictCase {
        prog: Prog { mods },
        w,
        mutation,
    }
}

impl Prop for Verdict_ {
    type Case = VerdictCase;
    crate::prog_shrink!();
    fn name(&self) -> String {
        "C06/verdict".into()
    }
    fn rule(&self) -> String {
        "chains of depth 1-4 over a root with a 0-4 slot table (index gaps, all seven conventions, 0-3 parameters of integer, *const/*mut (also to the root type, two levels deep, to arrays) and small array types, optional return), optional second base with its own table, in half of the programs levels also hold a member or an array of members of a plain type declared before or after the chain, intermediate levels extending or inheriting the table; the last level's own block is the compatible prefix (+0-2 new slots) with at most one mutation: renamed slot, receiver flipped, one parameter's type changed in one place (leaf, pointer kind, array length, one level of indirection; any parameter), return type added/removed/changed the same way, calling convention changed to a different effective one, last base slot missing, two differing slots swapped, the size that restates slots reserved by the base's #[size] dropped, the last inherited function moved one slot further by an #[index], the block's text kept but placed in a second module where a type name it mentions denotes another type; controls: no mutation, default convention spelled out, the faithful block in a second module that imports what it mentions. Oracle: Ok iff no mutation. Every case is non-trivial (depth >= 2, or >= 2 bases, or a mutation)".into()
    }
    fn gen(&self, t: &mut Tape) -> VerdictCase {
        gen_verdict_case(t)
    }
    fn judge(&self, c: &VerdictCase) -> Outcome {
        let res = build_mem(&print_prog(&c.prog), c.w as usize, &MemOpts { emit: false, ..Default::default() });
        let class = format!("mutation:{}", c.mutation.split(" slot").next().unwrap_or("").split(" of").next().unwrap_or(""));
        match (&res, c.mutation.as_str()) {
            (Res::Panic(p), _) => Outcome::fail("panic", p.clone()),
            (Res::Ok(_), "none") => Outcome::pass(true).class(&class),
            (Res::Err(e), "none") => Outcome::fail("compatible-rejected", format!("a compatible hierarchy was rejected: {e}")),
            (Res::Err(_), _) => Outcome::pass(true).class(&class),
            (Res::Ok(_), m) => Outcome::fail(&format!("incompatible-accepted:{}", class), format!("mutation `{m}` of the base prefix was accepted")),
        }
    }
    fn show(&self, c: &VerdictCase) -> Value {
        json!({"width": c.w, "mutation": c.mutation, "pyxis": prog_text(&c.prog)})
    }
}

// ------------------------------------------------------------ layout (L1 + L2)

pub struct SharedPointer;
impl Prop for SharedPointer {
    type Case = l2c::Case;
    crate::prog_shrink!();
    fn name(&self) -> String {
        "C06/shared-pointer".into()
    }
    fn rule(&self) -> String {
        "accepted hierarchies from the rich generator (depth up to 4, 1-3 bases, bases with/without tables, derived with/without own block), widths 4 and 8. Oracle: a struct has a field named `vftable` iff it declares a block and its first base supplies no table; then rustc says offset_of!(T, vftable) == 0, size_of of that field == width and every declared field's offset >= width; when the first base supplies the table, offset_of!(T, <first base>) == 0. Non-trivial: a derived type whose first base carries a table".into()
    }
    fn gen(&self, t: &mut Tape) -> l2c::Case {
        let w = if t.chance(1, 2) { 8 } else { 4 };
        let mut cfg = GenCfg::layout_only(w);
        cfg.max_items = 3 + t.below(8);
        cfg.max_fields = 3;
        cfg.vft_num = 2;
        cfg.base_num = 2;
        let (prog, _, _) = gen_prog(t, cfg);
        l2c::Case { prog, w }
    }
    fn judge(&self, c: &l2c::Case) -> Outcome {
        if let Err(e) = l2_available() {
            return Outcome::discard(&format!("machinery: {e}"));
        }
        let built = match build_prog(&c.prog, c.w as usize) {
            Res::Ok(b) => b,
            Res::Err(_) => return Outcome::discard("pyxis-rejects"),
            Res::Panic(p) => return Outcome::fail("panic", p),
        };
        let mut model = Model::new(&c.prog, c.w);
        let mut app = Appendix::new();
        app.supply_extern_types(&c.prog);
        let mut shared = 0;
        let mut own = 0;
        for (mi, m) in c.prog.mods.iter().enumerate() {
            let file = m.out_path();
            let v = match rsview::view(&built.files[&file]) {
                Ok(v) => v,
                Err(e) => return Outcome::fail("unparsable", e),
            };
            for (ii, it) in m.items.iter().enumerate() {
                let Item::Type(td) = it else { continue };
                let Ok(l) = model.layout(mi, ii) else { continue };
                let Some(sv) = v.strukt(&td.name) else { return Outcome::fail("missing", td.name.clone()) };
                let has_field = sv.fields.iter().any(|f| f.name == "vftable");
                if has_field != l.owns_vptr {
                    return Outcome::fail(
                        "vftable-field",
                        format!("{}: has a `vftable` field = {has_field}, expected {} (declares a block: {}, first base supplies a table: {})", td.name, l.owns_vptr, td.vft.is_some(), l.has_vft && !l.owns_vptr),
                    );
                }
                if l.owns_vptr {
                    own += 1;
                    app.probe(&file, &format!("offset_of {}.vftable", td.name), &format!("::core::mem::offset_of!({}, vftable)", td.name), 0);
                    if sv.fields.first().map(|f| f.name.as_str()) != Some("vftable") {
                        return Outcome::fail("vftable-field", format!("{}: the vftable pointer is not the first field", td.name));
                    }
                    if !sv.fields[0].ty.starts_with("*const") {
                        return Outcome::fail("vftable-field", format!("{}: the vftable field has type {}", td.name, sv.fields[0].ty));
                    }
                } else if l.has_vft {
                    shared += 1;
                    if let Some(f) = td.fields.iter().find(|f| f.base) {
                        app.probe(&file, &format!("offset_of {}.{} (first base carrying the table)", td.name, f.name), &format!("::core::mem::offset_of!({}, {})", td.name, f.name), 0);
                    }
                }
            }
        }
        if shared + own == 0 {
            return Outcome::discard("no-vftable-in-program");
        }
        let out = rustc_check(assemble(&built.files, c.w, app, "", false), c.w);
        if let Some(e) = &out.machinery_error {
            return Outcome::discard(&format!("machinery: {}", e.chars().take(80).collect::<String>()));
        }
        let bad: Vec<_> = out.probes.iter().filter(|p| p.found.is_some()).collect();
        if !bad.is_empty() {
            let d: Vec<String> = bad.iter().take(6).map(|p| format!("{}: expected {}, rustc says {:?}", p.label, p.expected, p.found)).collect();
            return Outcome::fail("pointer-offset", d.join("\n"));
        }
        if !out.errors.is_empty() {
            return Outcome::discard("crate-does-not-compile (C13's business)");
        }
        Outcome::pass(shared > 0).class(&format!("width:{}", c.w)).class(&format!("shared:{}", bucket(shared))).class(&format!("own:{}", bucket(own)))
    }
    fn show(&self, c: &l2c::Case) -> Value {
        l2c::show_case(c)
    }
}

// ------------------------------------------------------------ accessor (L3)

pub struct Accessor;
impl Prop for Accessor {
    type Case = Case;
    crate::prog_shrink!();
    fn name(&self) -> String {
        "C06/accessor".into()
    }
    fn rule(&self) -> String {
        "same hierarchies at width 8, executed: a distinctive pointer value is written into a zeroed object where the pointer of the type itself or of its chain of first bases lives (offset 0 for an owner, else the sum of the first-base offsets; half of the programs put gaps in front of such bases) and `vftable()` is called; oracle: it returns exactly that value, for every type that owns or inherits a table. Non-trivial: >=1 type that inherits its pointer through a base".into()
    }
    fn gen(&self, t: &mut Tape) -> Case {
        let mut cfg = l3_cfg(t);
        cfg.vft_num = 2;
        cfg.base_num = 2;
        cfg.impls = false;
        cfg.enums = false;
        cfg.ext_vals = false;
        cfg.singletons = false;
        // the shared pointer lives in the first base wherever that base sits (also behind a member or a gap)
        cfg.vft_base_anywhere = t.chance(1, 2);
        // a third of the programs are mostly packed types (hierarchies of packed types then exist)
        if t.chance(1, 3) {
            cfg.packed_den = 2;
        }
        let (mut prog, _, _) = gen_prog(t, cfg);
        if t.chance(1, 5) {
            name_member_vftable(t, &mut prog);
        }
        Case { prog, seed: t.u64() }
    }
    fn judge(&self, c: &Case) -> Outcome {
        let r = match run_l3(c, &["vftable"]) {
            Ok(r) => r,
            Err(o) => return o,
        };
        if !r.failures.is_empty() {
            return Outcome::fail("wrong-pointer", r.failures.join("\n"));
        }
        let inherits = c.prog.mods.iter().any(|m| m.types().any(|t| t.fields.iter().any(|f| f.base)));
        Outcome::pass(inherits && r.checked >= 1).class(&format!("accessors:{}", bucket(r.checked)))
    }
    fn show(&self, c: &Case) -> Value {
        show_case(c)
    }
}

pub fn props() -> Vec<Box<dyn DynProp>> {
    vec![Box::new(Verdict_), Box::new(SharedPointer), Box::new(Accessor)]
}

pub fn run(ctx: &mut Ctx) {
    let q = ctx.quick();
    ctx.run(&Verdict_, &Params::new(if q { 20_000 } else { 500_000 }, 30, 300));
    ctx.run(&SharedPointer, &Params::new(if q { 3000 } else { 80_000 }, 100, 2000).shrink(100));
    ctx.run(&Accessor, &Params::new(if q { 1000 } else { 30_000 }, 200, 3000).shrink(60));
}
