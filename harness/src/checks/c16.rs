//! C16 — calling conventions are the declared ones, or the documented defaults.

use serde::{Deserialize, Serialize};
use serde_json::{json, Value};

use crate::driver::*;
use crate::genprog::*;
use crate::model::*;
use crate::pipeline::*;
use crate::refmodel::*;
use crate::rsview;
use crate::tape::Tape;

#[derive(Clone, Serialize, Deserialize)]
pub struct Case {
    pub prog: Prog,
    pub w: u64,
}

pub struct Conventions;

/// Virtual functions whose receiver is not written first. Only on functions with an underscore name
/// (a wrapper with a misplaced receiver is not valid Rust, and those get none) of types without bases
/// that nobody derives from (so that no other table has to agree with the change).
fn misplace_receivers(t: &mut Tape, prog: &mut Prog) {
    let mut used_as_base: Vec<String> = vec![];
    for m in &prog.mods {
        for td in m.types() {
            for f in td.fields.iter().filter(|f| f.base) {
                if let Some(n) = f.ty.leaf() {
                    used_as_base.push(n.to_string());
                }
            }
        }
    }
    for m in prog.mods.iter_mut() {
        for it in m.items.iter_mut() {
            let Item::Type(td) = it else { continue };
            if td.fields.iter().any(|f| f.base) || used_as_base.contains(&td.name) {
                continue;
            }
            let Some(v) = &mut td.vft else { continue };
            for f in v.funcs.iter_mut() {
                if !f.has_self() || !t.chance(1, 3) {
                    continue;
                }
                if !f.name.starts_with('_') {
                    f.name = format!("_{}", f.name);
                }
                if f.args.len() == 1 {
                    f.args.push(Arg::Named("a0".into(), Ty::n("u32")));
                }
                let recv = f.args.remove(0);
                let pos = 1 + t.below(f.args.len() as u64) as usize;
                f.args.insert(pos.min(f.args.len()), recv);
            }
        }
    }
}

pub fn check_ccs(prog: &Prog, w: u64, built: &Built) -> Result<(usize, usize), (String, String)> {
    let mut model = Model::new(prog, w);
    let mut n_slots = 0;
    let mut n_wrappers = 0;
    for (mi, m) in prog.mods.iter().enumerate() {
        let src = built.files.get(&m.out_path()).ok_or(("file-missing".to_string(), m.out_path()))?;
        let v = rsview::view(src).map_err(|e| ("unparsable".to_string(), e))?;
        for (ii, it) in m.items.iter().enumerate() {
            let Item::Type(td) = it else { continue };
            // vftable slots of a declared block
            if let Some(vft) = &td.vft {
                let slots = vft_slots(vft);
                let Some(sv) = v.strukt(&format!("{}Vftable", td.name)) else {
                    return Err(("vftable-missing".into(), format!("{}Vftable not emitted", td.name)));
                };
                if sv.fields.len() as u64 != slots.len {
                    return Err(("vftable-length".into(), format!("{}Vftable has {} slots, expected {}", td.name, sv.fields.len(), slots.len)));
                }
                let mut declared = std::collections::BTreeMap::new();
                for (f, s) in vft.funcs.iter().zip(slots.slot.iter()) {
                    declared.insert(*s, f);
                }
                for (idx, fv) in sv.fields.iter().enumerate() {
                    let want = match declared.get(&(idx as u64)) {
                        Some(f) => Model::expected_cc(f),
                        None => "thiscall".to_string(),
                    };
                    if fv.abis.len() != 1 || fv.abis[0].as_deref() != Some(want.as_str()) {
                        return Err((
                            "slot-convention".into(),
                            format!("{}Vftable slot {} (`{}`): fn-pointer ABIs {:?}, expected \"{want}\"", td.name, idx, fv.name, fv.abis),
                        ));
                    }
                    n_slots += 1;
                }
            }
            // wrappers
            let surf = model.surface(mi, ii);
            for meth in surf.vfuncs.iter().chain(surf.assoc.iter()) {
                if meth.name.starts_with('_') {
                    continue;
                }
                let Some(mv) = v.method(&td.name, &meth.name) else {
                    return Err(("method-missing".into(), format!("{}::{} not emitted", td.name, meth.name)));
                };
                match &meth.origin {
                    Origin::Own => {
                        let want = Model::expected_cc(&meth.func);
                        if mv.body_abis.len() != 1 || mv.body_abis[0].as_deref() != Some(want.as_str()) {
                            return Err((
                                "wrapper-convention".into(),
                                format!("{}::{}: fn-pointer ABIs in the body {:?}, expected exactly \"{want}\"", td.name, meth.name, mv.body_abis),
                            ));
                        }
                        n_wrappers += 1;
                    }
                    Origin::Vfunc { .. } | Origin::Forward { .. } => {
                        // called through the slot / the base: no fn-pointer type of its own that could disagree
                        if let Some(bad) = mv.body_abis.iter().find(|a| a.as_deref() != Some(Model::expected_cc(&meth.func).as_str())) {
                            return Err((
                                "wrapper-convention".into(),
                                format!("{}::{}: fn-pointer ABI {:?} in the body, function's convention is {}", td.name, meth.name, bad, Model::expected_cc(&meth.func)),
                            ));
                        }
                    }
                }
            }
        }
    }
    Ok((n_slots, n_wrappers))
}

fn conventions_used(prog: &Prog) -> (std::collections::BTreeSet<String>, bool) {
    let mut set = std::collections::BTreeSet::new();
    let mut defaulted = false;
    let mut see = |f: &Func| {
        set.insert(Model::expected_cc(f));
        if f.cc.is_none() {
            defaulted = true;
        }
    };
    for m in &prog.mods {
        for t in m.types() {
            if let Some(v) = &t.vft {
                v.funcs.iter().for_each(&mut see);
            }
        }
        for im in &m.impls {
            im.funcs.iter().for_each(&mut see);
        }
    }
    (set, defaulted)
}

impl Prop for Conventions {
    type Case = Case;
    crate::prog_shrink!();
    fn name(&self) -> String {
        "C16/conventions".into()
    }
    fn rule(&self) -> String {
        "programs from the rich generator with impl and vftable functions over all seven conventions and without the attribute, with and without receiver (also written after other parameters, on underscore-named virtual functions), through inheritance chains (derived tables repeating base slots, inherited tables, re-exposed functions). Oracle on the unnormalised output (syn visitor over every bare-fn type): each slot of each emitted <T>Vftable carries the declared convention, else thiscall with a receiver, else system; placeholder slots thiscall; each address-bound wrapper has exactly one fn-pointer type and it carries the same string; wrappers that go through a slot or a base carry no contradicting fn-pointer type. Non-trivial: >=2 different conventions in the program, or a defaulted one".into()
    }
    fn gen(&self, t: &mut Tape) -> Case {
        let w = if t.chance(1, 2) { 8 } else { 4 };
        let mut cfg = GenCfg::rich(w);
        cfg.max_items = 2 + t.below(10 * crate::driver::scale());
        cfg.docs = false;
        cfg.backends = false;
        cfg.static_vfuncs = true;
        cfg.vft_num = 2;
        cfg.alias_types = 4;
        cfg.allow_f20 = true;
        cfg.vft_base_anywhere = true;
        let (mut prog, _, _) = gen_prog(t, cfg);
        if t.chance(1, 4) {
            misplace_receivers(t, &mut prog);
        }
        Case { prog, w }
    }
    fn judge(&self, c: &Case) -> Outcome {
        let res = build_prog(&c.prog, c.w as usize);
        let (set, defaulted) = conventions_used(&c.prog);
        match res {
            Res::Panic(p) => Outcome::fail("panic", p),
            Res::Err(e) => Outcome::discard(&format!("rejected: {}", e.chars().filter(|c| !c.is_ascii_digit()).take(40).collect::<String>())),
            Res::Ok(b) => match check_ccs(&c.prog, c.w, &b) {
                Ok((slots, wrappers)) => {
                    let mut o = Outcome::pass(set.len() >= 2 || defaulted);
                    for s in &set {
                        o = o.class(&format!("cc:{s}"));
                    }
                    if defaulted {
                        o = o.class("defaulted");
                    }
                    o.class(&format!("slots:{}", if slots == 0 { "0" } else { ">0" })).class(&format!("wrappers:{}", if wrappers == 0 { "0" } else { ">0" }))
                }
                Err((k, d)) => Outcome::fail(&k, d),
            },
        }
    }
    fn show(&self, c: &Case) -> Value {
        json!({"width": c.w, "pyxis": prog_text(&c.prog)})
    }
}

// ------------------------------------------------------------ unknown names

#[derive(Clone, Serialize, Deserialize)]
pub struct BadCcCase {
    pub cc: String,
    pub on_vfunc: bool,
    pub w: u64,
    /// a second calling_convention attribute on the same function: (name, written before the first one, separate bracket)
    #[serde(default)]
    pub second: Option<(String, bool, bool)>,
    /// the function's name starts with an underscore (no wrapper is emitted for such functions; the
    /// convention has to be a known one all the same)
    #[serde(default)]
    pub underscore: bool,
}
pub struct UnknownNames;
impl Prop for UnknownNames {
    type Case = BadCcCase;
    fn name(&self) -> String {
        "C16/unknown-names".into()
    }
    fn rule(&self) -> String {
        "a function (impl or vftable, a quarter of them with a name starting with an underscore) whose calling_convention names something that is not one of the seven supported spellings (near misses in case, padding, other ABIs from a list; or a supported name with one small change: wrapped in or followed by quote characters, one of a dozen characters in front or behind, a letter dropped, doubled or changed in case), alone or next to a second calling_convention attribute before or after it, in the same or a separate bracket; oracle: the build is an error when any of the names is unknown. The seven correct spellings are included as controls and must be accepted".into()
    }
    fn gen(&self, t: &mut Tape) -> BadCcCase {
        let pool = [
            "Thiscall", "THISCALL", "stdcall ", " stdcall", "win64", "sysv64", "c", "Cdecl", "fast-call", "fastcall\n", "", "rust", "vector_call", "system ", "C ", "aapcs", "thiscall-unwind", "C-unwind",
            "C", "cdecl", "stdcall", "fastcall", "thiscall", "vectorcall", "system",
        ];
        // half of the names from the list, half a supported name with one small change
        let cc = if t.chance(1, 2) { t.pick(&pool).to_string() } else { near_miss(t) };
        BadCcCase {
            cc,
            on_vfunc: t.chance(1, 2),
            w: if t.chance(1, 2) { 8 } else { 4 },
            second: if t.chance(1, 3) { Some((t.pick(&pool).to_string(), t.chance(1, 2), t.chance(1, 2))) } else { None },
            underscore: t.chance(1, 4),
        }
    }
    fn judge(&self, c: &BadCcCase) -> Outcome {
        let f = Func {
            more: vec![],
            sty: 0,
            vis: true,
            name: if c.underscore { "_f".into() } else { "f".into() },
            doc: vec![],
            args: vec![Arg::ConstSelf],
            ret: None,
            addr: if c.on_vfunc { None } else { Some(Num::d(0x100)) },
            index: None,
            cc: Some(c.cc.clone()),
        };
        let mut f = f;
        if let Some((name, before, separate)) = &c.second {
            f.more.push(format!("{}calling_convention({:?})", if *before { "<" } else { "" }, name));
            if *separate {
                f.sty = 0x80;
            }
        }
        let mut td = TypeDef {
            vis: true,
            name: "T".into(),
            ..Default::default()
        };
        let mut m = Mod {
            path: vec!["m".into()],
            ..Default::default()
        };
        if c.on_vfunc {
            td.vft = Some(Vft { size: None, funcs: vec![f] });
        } else {
            td.fields.push(Field::new("a", Ty::n("u32")));
            m.impls.push(Impl { more: vec![], ty: "T".into(), funcs: vec![f] });
        }
        m.items.push(Item::Type(td));
        let prog = Prog { mods: vec![m] };
        // every convention named on the function must be a known one, wherever it stands
        let valid = crate::genprog::CCS.contains(&c.cc.as_str()) && c.second.as_ref().map(|(n, _, _)| crate::genprog::CCS.contains(&n.as_str())).unwrap_or(true);
        match (build_prog(&prog, c.w as usize), valid) {
            (Res::Panic(p), _) => Outcome::fail("panic", p),
            (Res::Ok(_), true) | (Res::Err(_), false) => Outcome::pass(true).class(if valid { "control-accepted" } else { "rejected" }),
            (Res::Ok(_), false) => Outcome::fail("unknown-accepted", format!("calling_convention({:?}) (second attribute: {:?}) was accepted", c.cc, c.second)),
            (Res::Err(e), true) => Outcome::fail("known-rejected", format!("calling_convention({:?}) (second attribute: {:?}) was rejected: {e}", c.cc, c.second)),
        }
    }
}

/// One of the seven supported names with one small change: wrapped in or followed by quote characters, a
/// character put in front or behind, a letter dropped, doubled or changed in case.
fn near_miss(t: &mut Tape) -> String {
    let base = t.pick(&crate::genprog::CCS).to_string();
    let extra = *t.pick(&['"', '\'', ' ', '\t', '_', '-', '\u{a0}', '\u{feff}', '\\', '\0', '`', ';']);
    let chars: Vec<char> = base.chars().collect();
    let k = t.below(chars.len() as u64) as usize;
    match t.below(9) {
        0 => format!("\"{base}\""),
        1 => format!("{base}\""),
        2 => format!("\"{base}"),
        3 => format!("{extra}{base}"),
        4 => format!("{base}{extra}"),
        5 => format!("{extra}{base}{extra}"),
        6 => chars.iter().enumerate().filter(|(i, _)| *i != k).map(|(_, c)| *c).collect(),
        7 => chars.iter().enumerate().flat_map(|(i, c)| if i == k { vec![*c, *c] } else { vec![*c] }).collect(),
        _ => chars.iter().enumerate().map(|(i, c)| if i == k { if c.is_uppercase() { c.to_ascii_lowercase() } else { c.to_ascii_uppercase() } } else { *c }).collect(),
    }
}

// ------------------------------------------------------------ restated slots

/// A derived table that restates a base slot with another convention.
pub struct Restated;

impl Prop for Restated {
    type Case = crate::checks::c06::VerdictCase;
    crate::prog_shrink!();
    fn name(&self) -> String {
        "C16/restated".into()
    }
    fn rule(&self) -> String {
        "inheritance chains of depth 1-4 (the C06 generator: root table of 1-4 slots over all conventions, index gaps, levels extending or inheriting the table) whose last level restates the base table either faithfully, with the default convention spelled out, or with ONE slot's convention changed to a different effective one (attribute changed, added or dropped). Oracle: either the build is an error, or in the emitted code every base slot has one and the same ABI string in the root's table and in the table of every level (syn view of each <L>Vftable), equal to the root declaration's convention. Non-trivial: depth >= 2 or a changed convention".into()
    }
    fn gen(&self, t: &mut Tape) -> Self::Case {
        let force = *t.pick(&[6u64, 6, 6, 0, 9]);
        crate::checks::c06::gen_verdict_case_with(t, Some(force))
    }
    fn judge(&self, c: &Self::Case) -> Outcome {
        let res = build_prog(&c.prog, c.w as usize);
        let class = format!("restated:{}", if c.mutation == "none" { "faithfully" } else { "other-convention" });
        let built = match res {
            Res::Panic(p) => return Outcome::fail("panic", p),
            Res::Err(_) => return Outcome::pass(c.mutation != "none").class(&class).class("rejected"),
            Res::Ok(b) => b,
        };
        let m = &c.prog.mods[0];
        let v = match rsview::view(&built.files[&m.out_path()]) {
            Ok(v) => v,
            Err(e) => return Outcome::fail("unparsable", e),
        };
        // the root's declaration decides
        let Some(root) = m.types().find(|t| t.name == "L0") else { return Outcome::discard("no-root") };
        let Some(rv) = &root.vft else { return Outcome::discard("no-root-table") };
        let slots = vft_slots(rv);
        let mut levels = 0;
        for td in m.types().filter(|t| t.name.starts_with('L')) {
            let Some(sv) = v.strukt(&format!("{}Vftable", td.name)) else { continue };
            levels += 1;
            for (f, s) in rv.funcs.iter().zip(slots.slot.iter()) {
                let want = Model::expected_cc(f);
                let Some(fv) = sv.fields.get(*s as usize) else {
                    return Outcome::fail("slot-missing", format!("{}Vftable has no slot {s}", td.name));
                };
                if fv.abis.first().and_then(|a| a.as_deref()) != Some(want.as_str()) {
                    return Outcome::fail(
                        "restated-convention",
                        format!("base slot {s} (`{}`) is \"{want}\" in L0Vftable but {:?} in {}Vftable (mutation: {})", f.name, fv.abis, td.name, c.mutation),
                    )
                    .class(&class);
                }
            }
        }
        Outcome::pass(levels >= 2).class(&class).class("accepted")
    }
    fn show(&self, c: &Self::Case) -> Value {
        json!({"width": c.w, "mutation": c.mutation, "pyxis": prog_text(&c.prog)})
    }
}

pub fn props() -> Vec<Box<dyn DynProp>> {
    vec![Box::new(Conventions), Box::new(UnknownNames), Box::new(Restated)]
}

pub fn run(ctx: &mut Ctx) {
    let q = ctx.quick();
    ctx.run(&Conventions, &Params::new(if q { 8_000 } else { 300_000 }, 100, 2500).shrink(300));
    ctx.run(&UnknownNames, &Params::new(if q { 3_000 } else { 30_000 }, 8, 16));
    ctx.run(&Restated, &Params::new(if q { 10_000 } else { 300_000 }, 30, 300));
}
