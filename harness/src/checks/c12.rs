//! C12 — every input yields a result: builds never panic or hang.
//!
//! Each case runs in a worker process (`pv c12-worker`) with RLIMIT_AS = 2 GiB and RLIMIT_CPU = 20 s,
//! so that a panic, an abort, an allocation failure, a stack overflow or an endless loop is observed
//! from outside.  A failing input is re-run once in a fresh worker before it is reported.

use std::io::Write;
use std::process::{Command, Stdio};

use serde::{Deserialize, Serialize};
use serde_json::{json, Value};

use crate::driver::*;
use crate::gast::*;
use crate::genprog::*;
use crate::model::*;
use crate::pipeline::*;
use crate::tape::Tape;

#[derive(Clone, Serialize, Deserialize)]
pub struct Case {
    pub files: Vec<(String, String)>,
    pub w: u64,
    pub what: String,
}

// ------------------------------------------------------------ worker side

pub fn worker_main() {
    // limits first
    unsafe {
        let as_lim = libc::rlimit {
            rlim_cur: 2 << 30,
            rlim_max: 2 << 30,
        };
        libc::setrlimit(libc::RLIMIT_AS, &as_lim);
        let cpu = libc::rlimit { rlim_cur: 20, rlim_max: 25 };
        libc::setrlimit(libc::RLIMIT_CPU, &cpu);
    }
    let mut input = String::new();
    let _ = std::io::Read::read_to_string(&mut std::io::stdin(), &mut input);
    let Ok(c) = serde_json::from_str::<Case>(&input) else {
        println!("{}", json!({"status": "bad-input"}));
        return;
    };
    let v = run_case_in_process(&c);
    println!("{v}");
}

pub const TABLE_CAP: isize = 65536;

/// Does the text ask for a vftable with more than TABLE_CAP slots (an #[index] on a virtual function or a
/// #[size] on a vftable block)? The property allows cost proportional to the tables an input asks for, so
/// such inputs are outside the domain (counted as discarded).
pub fn asks_for_huge_table(text: &str) -> bool {
    use pyxis::grammar as g;
    let Ok(Ok(m)) = catch(|| pyxis::parser::parse_str(text)) else { return false };
    let big = |attrs: &g::Attributes, name: &str| {
        attrs.0.iter().any(|a| match a {
            g::Attribute::Function(n, es) if n.as_str() == name => es.iter().any(|e| matches!(e, g::Expr::IntLiteral(v) if *v > TABLE_CAP)),
            _ => false,
        })
    };
    for d in &m.definitions {
        if let g::ItemDefinitionInner::Type(t) = &d.inner {
            for st in &t.statements {
                if let g::TypeField::Vftable(funcs) = &st.field {
                    if big(&st.attributes, "size") || funcs.iter().any(|f| big(&f.attributes, "index")) {
                        return true;
                    }
                }
            }
        }
    }
    false
}

/// The API sequences a user can drive: parse + add_module + build + write, and pyxis::build on disk.
pub fn run_case_in_process(c: &Case) -> Value {
    if c.what == "api" && c.files.len() == 1 && c.files[0].0 == "__api__" {
        return match serde_json::from_str::<ApiCase>(&c.files[0].1) {
            Ok(a) => {
                if a.ops.iter().any(|o| matches!(o, ApiOp::AddModule { text, .. } | ApiOp::AddFile { text, .. } | ApiOp::BuildDir { text, .. } if asks_for_huge_table(text))) {
                    return json!({"status": "skipped-huge-table"});
                }
                run_api_in_process(&a)
            }
            Err(_) => json!({"status": "bad-input"}),
        };
    }
    if c.files.iter().any(|(_, t)| asks_for_huge_table(t)) {
        return json!({"status": "skipped-huge-table"});
    }
    let mut parsed = 0;
    for (_, text) in &c.files {
        match catch(|| pyxis::parser::parse_str(text).is_ok()) {
            Err(p) => return json!({"status": "panic", "stage": "parse", "msg": p}),
            Ok(true) => parsed += 1,
            Ok(false) => {}
        }
    }
    let mem = build_mem(&c.files, c.w as usize, &MemOpts::default());
    if let Res::Panic(p) = &mem {
        return json!({"status": "panic", "stage": "build", "msg": p});
    }
    let lib = build_via_lib(&c.files, c.w as usize);
    if let Res::Panic(p) = &lib {
        return json!({"status": "panic", "stage": "pyxis::build", "msg": p});
    }
    // the two entry points must agree on the verdict (same inputs, same steps)
    json!({"status": if mem.is_ok() { "ok" } else { "err" }, "lib": if lib.is_ok() { "ok" } else { "err" }, "parsed": parsed, "msg": mem.err_text().map(|s| s.chars().take(200).collect::<String>())})
}

// ------------------------------------------------------------ parent side

pub fn run_in_worker(c: &Case) -> Value {
    let exe = std::env::current_exe().expect("exe");
    let mut child = match Command::new(exe).arg("c12-worker").arg("-").stdin(Stdio::piped()).stdout(Stdio::piped()).stderr(Stdio::piped()).spawn() {
        Ok(c) => c,
        Err(e) => return json!({"status": "machinery", "msg": format!("spawn: {e}")}),
    };
    let payload = serde_json::to_string(c).unwrap();
    if let Some(mut stdin) = child.stdin.take() {
        let _ = stdin.write_all(payload.as_bytes());
    }
    let child_pid = child.id();
    let out = match child.wait_with_output() {
        Ok(o) => o,
        Err(e) => return json!({"status": "machinery", "msg": format!("wait: {e}")}),
    };
    // a worker that was killed leaves its scratch directory behind
    if std::env::var("PV_WORK").is_err() && std::env::var("PV_KEEP_SCRATCH").is_err() {
        let _ = std::fs::remove_dir_all(std::path::Path::new("/dev/shm").join(format!("pv-work-{child_pid}")));
    }
    let stdout = String::from_utf8_lossy(&out.stdout);
    if let Some(line) = stdout.lines().last() {
        if let Ok(v) = serde_json::from_str::<Value>(line) {
            if out.status.success() {
                return v;
            }
        }
    }
    use std::os::unix::process::ExitStatusExt;
    let sig = out.status.signal();
    let why = match sig {
        Some(libc::SIGXCPU) | Some(libc::SIGKILL) => "cpu-limit (endless loop or super-linear work)",
        Some(libc::SIGABRT) => "abort (allocation failure, double panic or panic=abort path)",
        Some(libc::SIGSEGV) | Some(libc::SIGBUS) => "segfault (stack overflow?)",
        _ => "died",
    };
    json!({"status": "died", "signal": sig, "why": why, "stderr": String::from_utf8_lossy(&out.stderr).chars().take(400).collect::<String>()})
}

fn panic_signature(msg: &str) -> String {
    // message without numbers + file name of the panic location: stable across line shifts
    let (m, loc) = msg.rsplit_once(" @ ").unwrap_or((msg, ""));
    let m: String = m.chars().filter(|c| !c.is_ascii_digit()).take(60).collect();
    let file = loc.rsplit('/').next().unwrap_or("").split(':').next().unwrap_or("");
    format!("{m} @ {file}")
}

pub fn judge_case(c: &Case) -> Outcome {
    let mut v = run_in_worker(c);
    let bad = |v: &Value| v["status"] == "panic" || v["status"] == "died";
    if bad(&v) {
        // re-run once before reporting
        let v2 = run_in_worker(c);
        if !bad(&v2) {
            return Outcome::discard("did-not-reproduce-in-second-worker");
        }
        v = v2;
    }
    match v["status"].as_str().unwrap_or("") {
        "machinery" | "bad-input" => Outcome::discard("machinery"),
        "skipped-huge-table" => Outcome::discard("asks for a vftable of more than 65536 slots (cost proportional to the request is allowed)"),
        "panic" => {
            let msg = v["msg"].as_str().unwrap_or("").to_string();
            Outcome::fail(&format!("panic:{}", panic_signature(&msg)), format!("stage {}: {msg}", v["stage"]))
        }
        "died" => Outcome::fail(&format!("died:{}", v["why"].as_str().unwrap_or("")), format!("{v}")),
        s => {
            if v["lib"] != s {
                return Outcome::fail("entry-points-disagree", format!("add_module/build says {s}, pyxis::build on disk says {}", v["lib"]));
            }
            let parsed = v["parsed"].as_u64().unwrap_or(0);
            let mut o = Outcome::pass(parsed >= 1).class(&format!("result:{s}"));
            for w in c.what.split('+').filter(|w| !w.is_empty()) {
                o = o.class(&format!("what:{w}"));
            }
            o
        }
    }
}

// ------------------------------------------------------------ directed generator

const BOUNDARY: &[i128] = &[
    i64::MIN as i128,
    i64::MIN as i128 + 1,
    -0x8000_0000,
    -65536,
    -2,
    -1,
    0,
    1,
    2,
    3,
    7,
    255,
    256,
    65535,
    65536,
    0x7fff_ffff,
    0x8000_0000,
    0xffff_ffff,
    0x1_0000_0000,
    0x7fff_ffff_ffff_ffff,
    0x4000_0000_0000_0000,
    0x2000_0000_0000_0001,
    0x0fff_ffff_ffff_ffff,
];
const BOUNDARY_USIZE: &[u64] = &[0, 1, 2, 0x7fff_ffff, 0xffff_ffff, 0x1_0000_0000, i64::MAX as u64, i64::MAX as u64 + 1, u64::MAX, u64::MAX - 1, u64::MAX / 2, u64::MAX / 3 + 1, u64::MAX / 8 + 1, u64::MAX / 16 + 1];
const WEIRD_IDENTS: &[&str] = &["_", "r#type", "r#fn", "r#struct", "é", "变量", "Self_", "vftable_", "u32", "void", "get", "vftable", "f", "this", "_field_0", "T1Vftable", "crate_", "std", "core", "r#match", "__pv"];

/// Cap for numbers that ask for tables (the property allows cost proportional to what the input asks for).
fn cap_table(v: i128) -> i128 {
    // 65536 slots cost ~1 s to emit and format: kept, but rare, so that the quick tier stays quick
    if v > 65536 {
        if v % 16 == 1 {
            65536
        } else {
            2048 + v % 7
        }
    } else if v > 2048 && v % 16 != 0 {
        2048
    } else {
        v
    }
}

fn poison(t: &mut Tape, prog: &mut Prog) -> String {
    // collect mutation sites lazily: pick a category, then a site
    let nm = prog.mods.len();
    let mi = t.below(nm as u64) as usize;
    let cat = t.below(13);
    let b = *t.pick(BOUNDARY);
    let bu = *t.pick(BOUNDARY_USIZE);
    let id = t.pick(WEIRD_IDENTS).to_string();
    let m = &mut prog.mods[mi];
    let ni = m.items.len();
    if ni == 0 && cat < 9 {
        return "none".into();
    }
    let ii = if ni > 0 { t.below(ni as u64) as usize } else { 0 };
    match cat {
        0 => match &mut m.items[ii] {
            Item::Type(td) => {
                if let Some(k) = (!td.fields.is_empty()).then(|| t.below(td.fields.len() as u64) as usize) {
                    td.fields[k].addr = Some(Num { v: b, sp: t.below(6) as u8 });
                    return "boundary:field-address".into();
                }
                "none".into()
            }
            Item::Enum(e) => {
                let k = t.below(e.variants.len() as u64) as usize;
                e.variants[k].value = Some(Num { v: b, sp: t.below(6) as u8 });
                "boundary:enum-value".into()
            }
        },
        1 => {
            if let Item::Type(td) = &mut m.items[ii] {
                match t.below(3) {
                    0 => td.size = Some(Num { v: b, sp: 0 }),
                    1 => td.align = Some(Num { v: b, sp: 0 }),
                    _ => td.singleton = Some(Num { v: b, sp: 0 }),
                }
                return "boundary:type-attribute".into();
            }
            "none".into()
        }
        2 => {
            if let Item::Type(td) = &mut m.items[ii] {
                if let Some(v) = &mut td.vft {
                    if t.chance(1, 2) || v.funcs.is_empty() {
                        v.size = Some(Num { v: cap_table(b), sp: 0 });
                        return "boundary:vftable-size".into();
                    }
                    let k = t.below(v.funcs.len() as u64) as usize;
                    v.funcs[k].index = Some(Num { v: cap_table(b), sp: 0 });
                    return "boundary:vfunc-index".into();
                }
                td.vft = Some(Vft {
                    size: Some(Num { v: cap_table(b), sp: 0 }),
                    funcs: vec![],
                });
                return "boundary:vftable-size".into();
            }
            "none".into()
        }
        3 => {
            if let Item::Type(td) = &mut m.items[ii] {
                let ty = match t.below(6) {
                    0 => Ty::Unk(bu),
                    1 => Ty::n(*t.pick(&["u8", "u64", "u128", "void", "bool"])).arr(bu),
                    2 => Ty::n("u64").arr(bu).arr(bu),
                    3 => Ty::Named(td.name.clone()).arr(bu),
                    4 => {
                        // deep nesting that still fits the few kilobytes the property speaks of
                        let depth = 100 + t.below(600);
                        let mut ty = Ty::n("u8");
                        for k in 0..depth {
                            ty = if k % 2 == 0 { ty.cptr() } else { ty.mptr() };
                        }
                        ty
                    }
                    _ => {
                        let depth = 100 + t.below(600);
                        let mut ty = Ty::n("u8");
                        for _ in 0..depth {
                            ty = ty.arr(1);
                        }
                        ty
                    }
                };
                let pos = t.below(td.fields.len() as u64 + 1) as usize;
                td.fields.insert(pos, Field::new(&format!("big{}", t.below(100)), ty));
                return "boundary:array-length".into();
            }
            "none".into()
        }
        4 => {
            // unusual identifiers in name positions
            match &mut m.items[ii] {
                Item::Type(td) => match t.below(3) {
                    0 => td.name = id,
                    1 => {
                        if let Some(k) = (!td.fields.is_empty()).then(|| t.below(td.fields.len() as u64) as usize) {
                            td.fields[k].name = id;
                        }
                    }
                    _ => {
                        if let Some(v) = &mut td.vft {
                            if let Some(k) = (!v.funcs.is_empty()).then(|| t.below(v.funcs.len() as u64) as usize) {
                                v.funcs[k].name = id;
                            }
                        }
                    }
                },
                Item::Enum(e) => {
                    if t.chance(1, 2) {
                        e.name = id
                    } else {
                        let k = t.below(e.variants.len() as u64) as usize;
                        e.variants[k].name = id;
                    }
                }
            }
            "identifier".into()
        }
        5 => {
            // attributes on unexpected items
            if let Item::Type(td) = &mut m.items[ii] {
                if let Some(k) = (!td.fields.is_empty()).then(|| t.below(td.fields.len() as u64) as usize) {
                    td.fields[k].base = true;
                    if t.chance(1, 2) {
                        td.fields[k].name = "_".into();
                    }
                    return "attribute:base-on-anything".into();
                }
            }
            "none".into()
        }
        6 => {
            // self-referential / mutually recursive by value
            let names: Vec<String> = m.items.iter().map(|i| i.name().to_string()).collect();
            if let Item::Type(td) = &mut m.items[ii] {
                let target = t.pick(&names).clone();
                let ty = match t.below(3) {
                    0 => Ty::Named(target),
                    1 => Ty::Named(target).arr(2),
                    _ => Ty::Named(td.name.clone()),
                };
                let mut f = Field::new("rec", ty);
                f.base = t.chance(1, 3);
                td.fields.push(f);
                return "recursion".into();
            }
            "none".into()
        }
        7 => {
            // extern type with hostile size/align
            m.ext_types.push(ExtType {
                name: format!("Xh{}", t.below(50)),
                size: Num { v: b, sp: 0 },
                align: Num { v: *t.pick(BOUNDARY), sp: 0 },
            });
            let nme = m.ext_types.last().unwrap().name.clone();
            if let Item::Type(td) = &mut m.items[ii] {
                td.fields.push(Field::new("xh", Ty::Named(nme.clone())));
                td.fields.push(Field::new("xh2", Ty::Named(nme)));
            }
            "boundary:extern-type".into()
        }
        8 => {
            // impl function / extern value addresses
            if let Some(im) = m.impls.first_mut() {
                if let Some(f) = im.funcs.first_mut() {
                    f.addr = Some(Num { v: b, sp: 0 });
                    if t.chance(1, 3) {
                        f.name = id;
                    }
                    return "boundary:function-address".into();
                }
            }
            "none".into()
        }
        9 => {
            // cyclic use graph, uses of types, of nothing, of itself
            let p = m.path.clone();
            let other = t.below(nm as u64) as usize;
            let op = prog.mods[other].path.clone();
            prog.mods[mi].uses.push(op);
            prog.mods[other].uses.push(p.clone());
            prog.mods[mi].uses.push(p);
            prog.mods[mi].uses.push(vec![]);
            "cyclic-use".into()
        }
        12 => {
            // backend text that is odd Rust: unbalanced, unterminated, items syn keeps verbatim, not Rust at all
            let texts = [
                "}/*", "pub const X: u32;", "fn f();", "impl Q { fn g(); }", "pub static S: u8;", "type A;", "/*", "*/", "'", "\"", "r#\"", "{", ")",
                "macro_rules! m { () => {} }", "#![no_std]", "pub trait Tr { const C: u32; fn f(); }", "mod inner;", "use super::*;", "\\", "\u{0}", "pub struct;",
                "extern \"C\" { fn h(); static Z: u8; type Opaque; }", "pub fn ok() {}", "enum E {}", "union U { a: u8 }", "const _: () = ();",
                // token trees syn does not look into but the pretty-printer does
                "macro_rules! m ( x );", "macro_rules! m { () => {} x }", "macro_rules! m { (a) = > {} }", "macro_rules! m { }", "macro m() {}", "macro_rules! m { ($x:expr) => { $x } ; ; }",
                // a syntax error far to the right of multi-byte text on the same line (the error report quotes the line)
                "pub const GREETING: &str = \"こんにちは世界、これは長い日本語のテキストです。もっと長く、もっと長く\"; pub fn answer(-> u32) { 42 }",
                "/* ääääääääääääääääääääääääääääääääääääääääääääääääääääääääääääääääääääääää */ pub fn f( { }",
                "pub const E: &str = \"😀😀😀😀😀😀😀😀😀😀😀😀😀😀😀😀😀😀😀😀😀😀😀😀😀😀😀😀😀😀😀😀😀😀😀😀😀😀😀😀\"; struct",
                "// ∑∑∑∑∑∑∑∑∑∑∑∑∑∑∑∑∑∑∑∑∑∑∑∑∑∑∑∑∑∑∑∑∑∑∑∑∑∑∑∑∑∑∑∑∑∑∑∑∑∑∑∑∑∑∑∑∑∑∑∑∑∑∑∑∑∑∑∑∑∑\npub fn g() -> { }",
            ];
            let mut text = t.pick(&texts).to_string();
            if t.chance(1, 3) {
                // multi-byte text from the first column on, then a syntax error 60-120 characters in
                let ch = *t.pick(&["∑", "ä", "😀", "日"]);
                let n = 45 + t.below(70) as usize;
                let tail = *t.pick(&[" fn f( { }", " pub fn answer(-> u32) { 42 }", " struct", " const X: u32 = ;"]);
                text = if t.chance(1, 2) { format!("/*{}*/{tail}", ch.repeat(n)) } else { format!("const S: &str = \"{}\";{tail}", ch.repeat(n)) };
            }
            let (p, e) = if t.chance(1, 2) { (Some(text), None) } else { (None, Some(text)) };
            m.backends.push(BackendBlk {
                name: "rust".into(),
                form: 0,
                prologue: p,
                epilogue: e,
            });
            "backend-text".into()
        }
        10 => {
            m.ext_vals.push(ExtVal {
                sty: 0,
                vis: true,
                name: id,
                ty: if t.chance(1, 2) { Ty::Unk(bu) } else { Ty::n("void") },
                addr: Some(Num { v: b, sp: 0 }),
                doc: vec![],
            });
            "boundary:extern-value".into()
        }
        _ => {
            // duplicate module / odd module file names
            let mut m2 = prog.mods[mi].clone();
            m2.path = vec![t.pick(&["lib", "mod", "self_", "é", "a.b", "crate_", "zz"]).to_string()];
            if !prog.mods.iter().any(|m| m.path == m2.path) {
                prog.mods.push(m2);
            }
            "module-name".into()
        }
    }
}

/// A derived type whose own vftable block disagrees with its first base's table: rejected by design,
/// through an error path that prints both functions.
fn vftable_mismatch(t: &mut Tape, prog: &mut Prog) -> String {
    let mut sites: Vec<(usize, usize, Vft)> = vec![];
    for (mi, m) in prog.mods.iter().enumerate() {
        for (ii, it) in m.items.iter().enumerate() {
            let Item::Type(td) = it else { continue };
            let Some(bf) = td.fields.iter().find(|f| f.base) else { continue };
            let Ty::Named(bn) = &bf.ty else { continue };
            // base type by short name anywhere in the program
            let base = prog.mods.iter().flat_map(|m| m.types()).find(|t| &t.name == bn);
            if let Some(v) = base.and_then(|b| b.vft.clone()) {
                if !v.funcs.is_empty() {
                    sites.push((mi, ii, v));
                }
            }
        }
    }
    if sites.is_empty() {
        return "none".into();
    }
    let (mi, ii, mut v) = sites[t.below(sites.len() as u64) as usize].clone();
    let k = t.below(v.funcs.len() as u64) as usize;
    match t.below(5) {
        0 => v.funcs[k].name = format!("{}_x", v.funcs[k].name),
        1 => v.funcs[k].args.push(Arg::Named("extra".into(), Ty::n("u8"))),
        2 => v.funcs[k].ret = Some(Ty::n("u64").cptr()),
        3 => {
            v.funcs.truncate(k);
        }
        _ => v.funcs[k].cc = Some("fastcall".into()),
    }
    // the docs of the functions involved are what the message prints
    let d = edge_doc(t);
    if let Some(f) = v.funcs.get_mut(k) {
        f.doc = d.clone();
    }
    if let Item::Type(td) = &mut prog.mods[mi].items[ii] {
        td.vft = Some(v);
    }
    if t.chance(1, 2) {
        // and on the base's side
        for m in prog.mods.iter_mut() {
            for it in m.items.iter_mut() {
                if let Item::Type(td) = it {
                    if let Some(bv) = &mut td.vft {
                        if let Some(f) = bv.funcs.get_mut(k) {
                            if t.chance(1, 2) {
                                f.doc = d.clone();
                            }
                        }
                    }
                }
            }
        }
    }
    "vftable-mismatch".into()
}

/// A small hierarchy (2-5 types, up to three levels, one or two bases each) in which function names come
/// from {f, g}, base field names from {base, b} and some functions are called `<field>_<name>` outright:
/// every path of the renaming of re-exposed functions meets names that are taken, taken twice, or taken
/// by the renamed form itself.
fn rename_collision_prog(t: &mut Tape) -> Prog {
    let n = 2 + t.below(4) as usize;
    let mut m = Mod {
        path: vec!["h".into()],
        ..Default::default()
    };
    let fnames = ["f", "g", "base_f", "b_f", "base_g", "b_base_f", "base_base_f"];
    let mut addr = 0x1000i128;
    for i in 0..n {
        let name = format!("H{i}");
        let mut td = TypeDef {
            vis: true,
            name: name.clone(),
            ..Default::default()
        };
        // bases among the earlier types; a type with a vftable-carrying first base repeats its table
        let nb = if i == 0 { 0 } else { t.below(3) as usize };
        let mut first_base_vft: Option<Vft> = None;
        let mut used_fields: Vec<&str> = vec![];
        for k in 0..nb {
            let b = t.below(i as u64) as usize;
            let fname = if t.chance(3, 4) { "base" } else { "b" };
            if used_fields.contains(&fname) {
                continue;
            }
            used_fields.push(fname);
            let mut f = Field::new(fname, Ty::Named(format!("H{b}")));
            f.base = true;
            if k == 0 {
                // effective table of the first base (own block or its first base's, one level is enough here)
                if let Some(Item::Type(bt)) = m.items.get(b) {
                    first_base_vft = bt.vft.clone();
                }
            }
            td.fields.push(f);
        }
        let mk = |name: &str, addr: Option<i128>| Func {
            more: vec![],
            sty: 0,
            vis: true,
            name: name.to_string(),
            doc: vec![],
            args: vec![Arg::ConstSelf],
            ret: None,
            addr: addr.map(Num::d),
            index: None,
            cc: None,
        };
        match &first_base_vft {
            Some(v) => {
                if t.chance(1, 2) {
                    let mut v = v.clone();
                    if t.chance(1, 2) {
                        let extra = *t.pick(&fnames);
                        if !v.funcs.iter().any(|f| f.name == extra) {
                            v.funcs.push(mk(extra, None));
                        }
                    }
                    td.vft = Some(v);
                }
            }
            None => {
                if t.chance(1, 2) {
                    let k = 1 + t.below(2);
                    let mut funcs: Vec<Func> = vec![];
                    for _ in 0..k {
                        let nme = *t.pick(&fnames);
                        if !funcs.iter().any(|f| f.name == nme) {
                            funcs.push(mk(nme, None));
                        }
                    }
                    td.vft = Some(Vft { size: None, funcs });
                }
            }
        }
        td.fields.push(Field::new(&format!("x{i}"), Ty::n("u32")));
        m.items.push(Item::Type(td));
        if t.chance(2, 3) {
            let k = 1 + t.below(2);
            let mut funcs: Vec<Func> = vec![];
            for _ in 0..k {
                let nme = *t.pick(&fnames);
                if !funcs.iter().any(|f| f.name == nme) {
                    addr += 0x10;
                    funcs.push(mk(nme, Some(addr)));
                }
            }
            m.impls.push(Impl { more: vec![], ty: name, funcs });
        }
    }
    Prog { mods: vec![m] }
}

/// All base fields of the program get one of two names and many functions one name: the renaming of
/// re-exposed functions (`<field>_<name>`) then runs into names that are taken as well (the shape of
/// known finding F19, which for this property only has to return).
fn same_base_field_names(t: &mut Tape, prog: &mut Prog) -> String {
    let fname = if t.chance(1, 2) { Some("f".to_string()) } else { None };
    for m in prog.mods.iter_mut() {
        for it in m.items.iter_mut() {
            if let Item::Type(td) = it {
                let mut k = 0;
                for f in td.fields.iter_mut().filter(|f| f.base) {
                    f.name = if k == 0 || t.chance(1, 2) { "base".into() } else { "base2".into() };
                    k += 1;
                }
                if let (Some(n), Some(v)) = (&fname, &mut td.vft) {
                    if let Some(f) = v.funcs.first_mut() {
                        if t.chance(1, 2) {
                            f.name = n.clone();
                        }
                    }
                }
            }
        }
        if let Some(n) = &fname {
            for im in m.impls.iter_mut() {
                if let Some(f) = im.funcs.first_mut() {
                    if t.chance(1, 2) {
                        f.name = n.clone();
                    }
                }
            }
        }
    }
    "same-base-field-names".into()
}

fn edge_doc(t: &mut Tape) -> Vec<String> {
    match t.below(9) {
        0 => vec![String::new()],
        1 => vec![String::new(), String::new()],
        2 => vec![" é".into()],
        3 => vec!["é".into(), String::new()],
        4 => vec![" \u{1F600} 😀 ß ∑".into()],
        5 => vec![" \"quote\" #\" r#\"".into()],
        6 => vec![" x".repeat(300)],
        7 => vec![" */ /* {{ }} {} {0}".into()],
        _ => vec![" \\".into(), "\t".into()],
    }
}

/// Doc comments with content that needs care (empty, multi-byte, quotes, braces) on random elements.
fn edge_docs(t: &mut Tape, prog: &mut Prog) -> String {
    for m in prog.mods.iter_mut() {
        if t.chance(1, 6) {
            m.doc = edge_doc(t);
        }
        for it in m.items.iter_mut() {
            match it {
                Item::Type(td) => {
                    if t.chance(1, 5) {
                        td.doc = edge_doc(t);
                    }
                    for f in td.fields.iter_mut() {
                        if f.name != "_" && t.chance(1, 6) {
                            f.doc = edge_doc(t);
                        }
                    }
                    if let Some(v) = &mut td.vft {
                        for f in v.funcs.iter_mut() {
                            if t.chance(1, 4) {
                                f.doc = edge_doc(t);
                            }
                        }
                    }
                }
                Item::Enum(e) => {
                    if t.chance(1, 5) {
                        e.doc = edge_doc(t);
                    }
                    for v in e.variants.iter_mut() {
                        if t.chance(1, 6) {
                            v.doc = edge_doc(t);
                        }
                    }
                }
            }
        }
        for im in m.impls.iter_mut() {
            for f in im.funcs.iter_mut() {
                if t.chance(1, 4) {
                    f.doc = edge_doc(t);
                }
            }
        }
        for ev in m.ext_vals.iter_mut() {
            if t.chance(1, 5) {
                ev.doc = edge_doc(t);
            }
        }
    }
    "edge-docs".into()
}

pub struct Directed;
impl Prop for Directed {
    type Case = Case;
    fn name(&self) -> String {
        "C12/directed".into()
    }
    fn rule(&self) -> String {
        "grammar-directed hostile inputs: (a) accepted programs from the rich generator (1-6 items; one in ten with 20-60 items in one or two modules) with 1-3 poisonings: a boundary integer (isize::MIN, -1, 0, 1, 2^31±1, 2^32, 2^63-1, values near usize::MAX/k) in a numeric position (field address, type size/align/singleton, vftable size, vfunc index, array length, unknown<N>, pointer and array nesting 100-700 levels deep, enum value, extern-type size/align, function and extern-value address; positive table sizes/indices capped at 65536), an unusual identifier (`_`, raw, unicode, names of generated items) in a name position, #[base] on arbitrary fields, by-value recursion, cyclic/self/empty `use`, odd module file names; name-clash perturbations (one program in three), a derived vftable block that disagrees with its base's table (one in three), doc comments with edge content (empty, multi-byte, quotes, braces, long; one in three), all base fields named alike and functions sharing one name (one in five); small hierarchies whose function and base-field names are drawn from {f, g, base_f, b_f, ...} x {base, b} so that the renaming of re-exposed functions meets taken names at every step (one case in eight); (b) syntactically valid random modules over the full grammar (gast) as one or two modules. Every case runs in a worker process under RLIMIT_AS 2 GiB / RLIMIT_CPU 20 s through parse_str, add_module+build+write_module and pyxis::build on disk. Oracle: every call returns; no panic (incl. arithmetic overflow: overflow checks on), abort, segfault or limit hit; both entry points agree on Ok/Err. Non-trivial: >=1 file parses".into()
    }
    fn gen(&self, t: &mut Tape) -> Case {
        let w = if t.chance(1, 2) { 8 } else { 4 };
        if t.chance(1, 4) {
            let n = 1 + t.below(2);
            let mut files = vec![];
            for i in 0..n {
                let m = gen_gmod(t);
                files.push((format!("g{i}.pyxis"), print_gmod(&m, Style::canonical())));
            }
            return Case {
                files,
                w,
                what: "random-grammar".into(),
            };
        }
        if t.chance(1, 8) {
            return Case {
                files: print_prog(&rename_collision_prog(t)),
                w,
                what: "rename-collisions".into(),
            };
        }
        let mut cfg = GenCfg::rich(w);
        cfg.max_items = 1 + t.below(6);
        cfg.max_fields = 4;
        cfg.docs = t.chance(1, 3);
        cfg.backends = t.chance(1, 4);
        // programs that are rejected by design exercise the error paths (which format names, docs, functions)
        cfg.clashes = 3;
        cfg.vft_num = 2;
        cfg.base_num = 2;
        // one program in ten is large and flat: dozens of definitions in one or two modules (sorting,
        // grouping and lookup code sees more than a handful of entries)
        if t.chance(1, 10) {
            cfg.max_items = 20 + t.below(40);
            cfg.max_mods = 1 + t.below(2);
            cfg.max_fields = 3;
            cfg.clashes = 0;
        }
        let (mut prog, _, _) = gen_prog(t, cfg);
        let n = 1 + t.below(3);
        let mut whats = vec![];
        for _ in 0..n {
            whats.push(poison(t, &mut prog));
        }
        if t.chance(1, 3) {
            whats.push(vftable_mismatch(t, &mut prog));
        }
        if t.chance(1, 5) {
            whats.push(same_base_field_names(t, &mut prog));
        }
        if t.chance(1, 3) {
            whats.push(edge_docs(t, &mut prog));
        }
        whats.sort();
        whats.dedup();
        Case {
            files: print_prog(&prog),
            w,
            what: whats.into_iter().filter(|w| w != "none").collect::<Vec<_>>().join("+"),
        }
    }
    fn judge(&self, c: &Case) -> Outcome {
        judge_case(c)
    }
    fn fixed_cases(&self) -> Vec<Case> {
        // the repository's own inputs and every saved text of the corpus, each as a one-module build at both widths
        let mut v = vec![];
        for (i, text) in crate::corpus::repo_texts().into_iter().enumerate() {
            for w in [4, 8] {
                v.push(Case {
                    files: vec![(format!("c{i}.pyxis"), text.clone())],
                    w,
                    what: "corpus".into(),
                });
            }
        }
        v
    }
}

// ------------------------------------------------------------ modules with dozens of definitions

/// One module of 21-70 definitions with many base relations that run against the order of the names.
pub struct ManyItems;
impl Prop for ManyItems {
    type Case = Case;
    fn name(&self) -> String {
        "C12/many-items".into()
    }
    fn rule(&self) -> String {
        "valid programs of one module with 21-70 definitions (packed structs of two u32 members, a few enums, extern types and vftable owners, names T00..Tnn in shuffled declaration order); about half of the structs have one or two bases, chosen by a random rank that is independent of the names, so that many bases sort after the types that embed them. Sorting, grouping and lookup code sees more than a handful of entries. Same worker processes and oracle as C12/directed (every call returns, no panic, both entry points agree). Every case is non-trivial when it parses".into()
    }
    fn gen(&self, t: &mut Tape) -> Case {
        let w = if t.chance(1, 2) { 8 } else { 4 };
        let n = 21 + t.below(50) as usize;
        // rank[i]: a type may only embed types of lower rank
        let mut rank: Vec<usize> = (0..n).collect();
        for i in (1..n).rev() {
            let j = t.below(i as u64 + 1) as usize;
            rank.swap(i, j);
        }
        let mut m = Mod {
            path: vec!["big".into()],
            ..Default::default()
        };
        let kinds: Vec<u64> = (0..n).map(|_| t.below(10)).collect();
        for i in 0..n {
            let name = format!("T{i:02}");
            match kinds[i] {
                0 => m.items.push(Item::Enum(EnumDef {
                    sty: 0,
                    vis: true,
                    name,
                    doc: vec![],
                    base: "u32".into(),
                    variants: vec![Variant { sty: 0, name: "A".into(), value: Some(Num::d(1)), default: false, doc: vec![] }],
                    singleton: None,
                    copyable: false,
                    cloneable: false,
                    defaultable: false,
                })),
                1 => m.ext_types.push(ExtType { name, size: Num::d(8), align: Num::d(4) }),
                k => {
                    let mut fields = vec![];
                    // bases: structs of lower rank
                    let lower: Vec<usize> = (0..n).filter(|&j| kinds[j] >= 2 && rank[j] < rank[i]).collect();
                    let nb = if lower.is_empty() { 0 } else { *t.pick(&[0u64, 0, 1, 1, 2]) };
                    for b in 0..nb {
                        let j = lower[t.below(lower.len() as u64) as usize];
                        let mut f = Field::new(&format!("b{b}"), Ty::Named(format!("T{j:02}")));
                        f.base = true;
                        fields.push(f);
                    }
                    fields.push(Field::new("x", Ty::n("u32")));
                    fields.push(Field::new("y", Ty::n("u32")));
                    // a table of its own only without bases (nothing to restate)
                    let vft = if k == 2 && nb == 0 {
                        Some(Vft {
                            size: None,
                            funcs: vec![Func { sty: 0, more: vec![], vis: true, name: "vf".into(), doc: vec![], args: vec![Arg::ConstSelf], ret: None, addr: None, index: None, cc: None }],
                        })
                    } else {
                        None
                    };
                    m.items.push(Item::Type(TypeDef { vis: true, name, packed: true, vft, fields, ..Default::default() }));
                }
            }
        }
        // declaration order shuffled too
        for i in (1..m.items.len()).rev() {
            let j = t.below(i as u64 + 1) as usize;
            m.items.swap(i, j);
        }
        Case { files: print_prog(&Prog { mods: vec![m] }), w, what: "many-items".into() }
    }
    fn judge(&self, c: &Case) -> Outcome {
        judge_case(c)
    }
}

// ------------------------------------------------------------ parse-error positions through add_file

#[derive(Clone, Serialize, Deserialize)]
pub struct PosCase {
    pub bad: crate::checks::c18::BadTokCase,
    pub dir: String,
}
pub struct ParsePosition;
impl Prop for ParsePosition {
    type Case = PosCase;
    fn name(&self) -> String {
        "C12/parse-position".into()
    }
    fn rule(&self) -> String {
        "a valid module with one token no production accepts (@ $ ? %) inserted at a token boundary with known (line, column), written to a file in a nested directory and handed to SemanticState::add_file. Oracle: Err whose text contains `<path>:<line>:<col>` with 1 <= line <= number of lines and the position not after the inserted token. Non-trivial: the module has >=1 item".into()
    }
    fn gen(&self, t: &mut Tape) -> PosCase {
        let m = gen_gmod(t);
        PosCase {
            bad: crate::checks::c18::BadTokCase {
                m,
                style: 0,
                at: t.below(4096) as usize,
                tok: t.pick(&["@", "$", "?", "%"]).to_string(),
            },
            dir: t.pick(&["", "sub", "a/b"]).to_string(),
        }
    }
    fn judge(&self, c: &PosCase) -> Outcome {
        let (text, l0, c0) = crate::checks::c18::BadToken::render(&c.bad);
        let sc = Scratch::new("pos");
        let rel = if c.dir.is_empty() { "bad.pyxis".to_string() } else { format!("{}/bad.pyxis", c.dir) };
        sc.write(&rel, &text);
        let path = sc.path(&rel);
        let r = catch(|| {
            let mut st = pyxis::semantic::SemanticState::new(4);
            st.add_file(&sc.dir, &path).map_err(|e| format!("{e:#}"))
        });
        match r {
            Err(p) => Outcome::fail("panic", p),
            Ok(Ok(())) => Outcome::fail("accepted", format!("file with a stray `{}` was accepted", c.bad.tok)),
            Ok(Err(e)) => {
                let p = path.display().to_string();
                let Some(i) = e.find(&p) else {
                    return Outcome::fail("no-file-in-error", format!("error does not name the file {p}: {e}"));
                };
                let rest = &e[i + p.len()..];
                let mut it = rest.trim_start_matches(':').split(|c: char| !c.is_ascii_digit());
                let line: usize = it.next().and_then(|s| s.parse().ok()).unwrap_or(0);
                let col: usize = it.next().and_then(|s| s.parse().ok()).unwrap_or(0);
                let nlines = text.split('\n').count();
                if line < 1 || line > nlines || col < 1 {
                    return Outcome::fail("no-position", format!("no usable :line:col after the path (line {line}, col {col}, {nlines} lines): {e}"));
                }
                if (line, col) > (l0, c0) {
                    return Outcome::fail("position-after-token", format!("stray token at {l0}:{c0}, error reported at {line}:{col}: {e}"));
                }
                Outcome::pass(!c.bad.m.items.is_empty())
            }
        }
    }
    fn show(&self, c: &PosCase) -> Value {
        let (text, l, col) = crate::checks::c18::BadToken::render(&c.bad);
        json!({"dir": c.dir, "text": text, "inserted_at": [l, col]})
    }
}

// ------------------------------------------------------------ API call sequences

#[derive(Clone, Serialize, Deserialize)]
pub enum ApiOp {
    /// add_module(parse_str(text), path)
    AddModule { path: Vec<String>, text: String },
    /// add_file(base, file): `base_kind` 0 the directory holding the file, 1 a sibling directory, 2 "", 3 "/";
    /// `exists`: whether the file is written before the call
    AddFile { rel: String, text: String, base_kind: u8, exists: bool },
    /// pyxis::build(<dir>, <out>, w) on directories whose names are the given bytes (glob metacharacters,
    /// spaces, bytes that are not UTF-8), with `text` in `<dir>/<rel>`
    BuildDir { dir: Vec<u8>, out: Vec<u8>, rel: String, text: String },
}

#[derive(Clone, Serialize, Deserialize)]
pub struct ApiCase {
    pub w: u64,
    pub ops: Vec<ApiOp>,
}

pub fn run_api_in_process(c: &ApiCase) -> Value {
    let sc = Scratch::new("api");
    let r = catch(|| -> (usize, usize, bool) {
        let mut st = pyxis::semantic::SemanticState::new(c.w as usize);
        let (mut oks, mut errs) = (0, 0);
        for op in &c.ops {
            let r = match op {
                ApiOp::AddModule { path, text } => match pyxis::parser::parse_str(text) {
                    Ok(m) => st.add_module(&m, &item_path(path)).map_err(|e| e.to_string()),
                    Err(e) => Err(e.to_string()),
                },
                ApiOp::AddFile { rel, text, base_kind, exists } => {
                    let file = sc.path(&format!("in/{rel}"));
                    if *exists {
                        sc.write(&format!("in/{rel}"), text);
                    }
                    let base = match base_kind {
                        0 => sc.path("in"),
                        1 => sc.path("elsewhere"),
                        2 => std::path::PathBuf::new(),
                        _ => std::path::PathBuf::from("/"),
                    };
                    st.add_file(&base, &file).map_err(|e| e.to_string())
                }
                ApiOp::BuildDir { dir, out, rel, text } => {
                    use std::os::unix::ffi::OsStrExt;
                    let ind = sc.path("named").join(std::ffi::OsStr::from_bytes(dir));
                    let outd = sc.path("named-out").join(std::ffi::OsStr::from_bytes(out));
                    let file = ind.join(rel);
                    if let Some(parent) = file.parent() {
                        let _ = std::fs::create_dir_all(parent);
                    }
                    let _ = std::fs::create_dir_all(&outd);
                    let _ = std::fs::write(&file, text);
                    pyxis::build(&ind, &outd, c.w as usize).map_err(|e| e.to_string())
                }
            };
            match r {
                Ok(()) => oks += 1,
                Err(_) => errs += 1,
            }
        }
        let built = st.build();
        let ok = built.is_ok();
        if let Ok(rs) = built {
            let out = sc.path("out");
            let _ = std::fs::create_dir_all(&out);
            let mut keys: Vec<_> = rs.modules().keys().cloned().collect();
            keys.sort();
            for k in keys {
                let _ = pyxis::backends::rust::write_module(&out, &k, &rs, &rs.modules()[&k]);
            }
        }
        (oks, errs, ok)
    });
    match r {
        Err(p) => json!({"status": "panic", "stage": "api", "msg": p}),
        Ok((oks, errs, ok)) => json!({"status": if ok { "ok" } else { "err" }, "calls_ok": oks, "calls_err": errs}),
    }
}

pub struct ApiSequences;
impl Prop for ApiSequences {
    type Case = ApiCase;
    fn name(&self) -> String {
        "C12/api-sequences".into()
    }
    fn rule(&self) -> String {
        "sequences of 1-6 public API calls on one SemanticState followed by build() and write_module(): add_module with generated module texts under ordinary, empty, repeated, nested and prefix-of-each-other module paths; add_file with existing / missing files and a base path that is the input directory, a sibling directory, the empty path or `/` (so that the file is not below the base); pyxis::build on input and output directories named with glob metacharacters, spaces, dots, accented letters and bytes that are not UTF-8; both pointer widths. Each sequence runs in a worker process (same limits as C12/directed). Oracle: every call returns Ok or Err, nothing panics. Non-trivial: >=2 calls of which >=1 succeeded".into()
    }
    fn gen(&self, t: &mut Tape) -> ApiCase {
        let w = if t.chance(1, 2) { 8 } else { 4 };
        let n = 1 + t.below(6);
        let mut ops = vec![];
        let texts = |t: &mut Tape| -> String {
            if t.chance(1, 3) {
                print_gmod(&gen_gmod(t), Style::canonical())
            } else {
                let mut cfg = GenCfg::rich(w);
                cfg.max_mods = 1;
                cfg.max_items = 1 + t.below(4);
                cfg.max_fields = 3;
                cfg.docs = false;
                let (prog, _, _) = gen_prog(t, cfg);
                print_mod(&prog.mods[0])
            }
        };
        let seg_pool = ["m0", "m1", "a", "b", "T1", "u32", "é", ""];
        let dir_pool: [&[u8]; 14] = [b"plain", b"types[v2]", b"types[v2", b"a*b", b"what?", b"sp ace", "\u{e9}t\u{e9}".as_bytes(), b"types_\xFF", b"\xC3(", b"{a,b}", b"**", b"-dash", b".hidden", b"x.pyxis.d"];
        for _ in 0..n {
            if t.chance(1, 5) {
                let rel = t.pick(&["m0.pyxis", "sub/m1.pyxis", "a/b/c.pyxis"]).to_string();
                ops.push(ApiOp::BuildDir { dir: t.pick(&dir_pool).to_vec(), out: t.pick(&dir_pool).to_vec(), rel, text: texts(t) });
            } else if t.chance(2, 3) {
                let depth = t.below(4) as usize;
                let path: Vec<String> = (0..depth).map(|_| t.pick(&seg_pool).to_string()).collect();
                ops.push(ApiOp::AddModule { path, text: texts(t) });
            } else {
                let rel = t.pick(&["m0.pyxis", "sub/m1.pyxis", "a/b/c.pyxis", "noext", "dots.in.name.pyxis", "m0.pyxis"]).to_string();
                ops.push(ApiOp::AddFile {
                    rel,
                    text: texts(t),
                    base_kind: t.below(4) as u8,
                    exists: t.chance(4, 5),
                });
            }
        }
        ApiCase { w, ops }
    }
    fn judge(&self, c: &ApiCase) -> Outcome {
        // run in a worker through the generic case channel: encode as a Case with a marker file
        let payload = serde_json::to_string(c).unwrap();
        let carrier = Case {
            files: vec![("__api__".into(), payload)],
            w: c.w,
            what: "api".into(),
        };
        let mut v = run_in_worker(&carrier);
        let bad = |v: &Value| v["status"] == "panic" || v["status"] == "died";
        if bad(&v) {
            let v2 = run_in_worker(&carrier);
            if !bad(&v2) {
                return Outcome::discard("did-not-reproduce-in-second-worker");
            }
            v = v2;
        }
        match v["status"].as_str().unwrap_or("") {
            "panic" => {
                let msg = v["msg"].as_str().unwrap_or("").to_string();
                Outcome::fail(&format!("panic:{}", panic_signature(&msg)), msg)
            }
            "died" => Outcome::fail(&format!("died:{}", v["why"].as_str().unwrap_or("")), format!("{v}")),
            "skipped-huge-table" => Outcome::discard("asks for a vftable of more than 65536 slots (cost proportional to the request is allowed)"),
            "ok" | "err" => {
                let oks = v["calls_ok"].as_u64().unwrap_or(0);
                Outcome::pass(c.ops.len() >= 2 && oks >= 1).class(&format!("build:{}", v["status"].as_str().unwrap_or("")))
            }
            _ => Outcome::discard("machinery"),
        }
    }
    fn show(&self, c: &ApiCase) -> Value {
        json!({"width": c.w, "ops": c.ops.iter().map(|o| match o {
            ApiOp::AddModule { path, text } => json!({"add_module": path.join("::"), "text": text}),
            ApiOp::AddFile { rel, base_kind, exists, text } => json!({"add_file": rel, "base_kind": base_kind, "exists": exists, "text": text}),
            ApiOp::BuildDir { dir, out, rel, text } => json!({"pyxis::build": String::from_utf8_lossy(dir), "dir_bytes": dir, "out_bytes": out, "file": rel, "text": text}),
        }).collect::<Vec<_>>()})
    }
}

// ------------------------------------------------------------ libFuzzer campaign (thorough tier)

/// Runs tools/fuzz_campaign.sh and hands every crashing input it leaves behind to `judge`.
pub fn fuzz_campaign(target: &str, secs: u64) -> Result<(Vec<(String, Vec<u8>)>, String), String> {
    let root = verif_root();
    let art = root.join("fuzz/artifacts").join(target);
    let _ = std::fs::remove_dir_all(&art);
    let out = Command::new(root.join("tools/fuzz_campaign.sh")).arg(target).arg(secs.to_string()).arg("16").output().map_err(|e| format!("cannot run fuzz_campaign.sh: {e}"))?;
    let log = format!("{}{}", String::from_utf8_lossy(&out.stdout), String::from_utf8_lossy(&out.stderr));
    if !out.status.success() {
        return Err(format!("fuzz campaign could not run: {log}"));
    }
    let mut v = vec![];
    if let Ok(rd) = std::fs::read_dir(&art) {
        let mut paths: Vec<_> = rd.flatten().map(|e| e.path()).collect();
        paths.sort();
        for p in paths {
            if let Ok(b) = std::fs::read(&p) {
                v.push((p.file_name().unwrap().to_string_lossy().to_string(), b));
            }
        }
    }
    Ok((v, log))
}

pub struct FuzzArtifacts {
    pub cases: Vec<Case>,
    pub summary: String,
}
impl Prop for FuzzArtifacts {
    type Case = Case;
    fn name(&self) -> String {
        "C12/libfuzzer".into()
    }
    fn rule(&self) -> String {
        format!("coverage-guided byte-level search (libFuzzer target build_any, 16 forks, inputs <= 4 KiB, token dictionary, seeded with the repository's texts and generated modules; -timeout=20 -rss_limit_mb=2048; the target aborts on any caught panic). Every crashing/timeout/oom input the campaign leaves behind is re-judged here in a fresh worker process through the same oracle as C12/directed. Campaign: {}", self.summary)
    }
    fn gen(&self, _t: &mut Tape) -> Case {
        unreachable!()
    }
    fn judge(&self, c: &Case) -> Outcome {
        judge_case(c)
    }
    fn fixed_cases(&self) -> Vec<Case> {
        self.cases.clone()
    }
}

pub fn bytes_to_case(data: &[u8]) -> Option<Case> {
    // mirrors fuzz_targets/build_any.rs
    let text = std::str::from_utf8(data).ok()?;
    let w = if data.len() % 2 == 0 { 4 } else { 8 };
    let files = match text.split_once('\u{c}') {
        Some((a, b)) => vec![("a.pyxis".to_string(), a.to_string()), ("dir/b.pyxis".to_string(), b.to_string())],
        None => vec![("a.pyxis".to_string(), text.to_string())],
    };
    Some(Case { files, w, what: "fuzz".into() })
}

pub fn props() -> Vec<Box<dyn DynProp>> {
    vec![
        Box::new(Directed),
        Box::new(ManyItems),
        Box::new(ParsePosition),
        Box::new(ApiSequences),
        Box::new(FuzzArtifacts {
            cases: vec![],
            summary: String::new(),
        }),
    ]
}

pub fn run(ctx: &mut Ctx) {
    let q = ctx.quick();
    ctx.run(&ParsePosition, &Params::new(if q { 3_000 } else { 100_000 }, 20, 800));
    ctx.run(&ApiSequences, &Params::new(if q { 3_000 } else { 150_000 }, 60, 1500).shrink(200));
    ctx.run(&Directed, &Params::new(if q { 12_000 } else { 600_000 }, 60, 1500).shrink(200));
    ctx.run(&ManyItems, &Params::new(if q { 600 } else { 30_000 }, 200, 600).shrink(100));
    if !q && ctx.violations.is_empty() {
        let secs: u64 = std::env::var("PV_FUZZ_SECS").ok().and_then(|s| s.parse().ok()).unwrap_or(900);
        match fuzz_campaign("build_any", secs) {
            Err(e) => ctx.notes.push(format!("libFuzzer campaign did not run (inconclusive, not a violation): {}", e.chars().take(300).collect::<String>())),
            Ok((arts, log)) => {
                let summary = log.lines().filter(|l| l.contains("cov:") || l.contains("fuzzed for") || l.contains("artifacts")).collect::<Vec<_>>().join(" | ");
                ctx.notes.push(format!("libFuzzer build_any: {summary}"));
                ctx.extra.insert("libfuzzer_artifacts".into(), json!(arts.len()));
                let cases: Vec<Case> = arts.iter().filter_map(|(_, b)| bytes_to_case(b)).collect();
                if !cases.is_empty() {
                    ctx.run(&FuzzArtifacts { cases, summary }, &Params::new(0, 0, 0));
                }
            }
        }
    }
}
