//! C14 — every declared item is emitted exactly once, in the file of its module.

use std::collections::BTreeMap;

use serde::{Deserialize, Serialize};
use serde_json::{json, Value};

use crate::driver::*;
use crate::genprog::*;
use crate::model::*;
use crate::pipeline::*;
use crate::rsview;
use crate::tape::Tape;

#[derive(Clone, Serialize, Deserialize)]
pub struct Case {
    pub prog: Prog,
    pub w: u64,
}

pub struct Emission;

/// names of marker consts of a backend text, in order
fn markers(text: &str) -> Vec<String> {
    let mut v = vec![];
    for tok in text.split(|c: char| !(c.is_ascii_alphanumeric() || c == '_')) {
        if tok.starts_with("PV_MARK_") {
            v.push(tok.to_string());
        }
    }
    v
}

pub fn check_emission(prog: &Prog, files: &BTreeMap<String, String>) -> Result<(), (String, String)> {
    let want_files: Vec<String> = prog.mods.iter().map(|m| m.out_path()).collect();
    let mut got_files: Vec<String> = files.keys().cloned().collect();
    let mut wf = want_files.clone();
    wf.sort();
    got_files.sort();
    if wf != got_files {
        return Err(("file-set".into(), format!("expected output files {wf:?}, found {got_files:?}")));
    }
    for m in &prog.mods {
        let src = &files[&m.out_path()];
        let v = rsview::view(src).map_err(|e| ("unparsable".to_string(), e))?;
        // expected structs
        let mut want_structs: Vec<String> = vec![];
        for t in m.types() {
            want_structs.push(t.name.clone());
            if t.vft.is_some() {
                want_structs.push(format!("{}Vftable", t.name));
            }
        }
        let mut got_structs: Vec<String> = v.structs.iter().map(|s| s.name.clone()).collect();
        want_structs.sort();
        got_structs.sort();
        if want_structs != got_structs {
            return Err(("struct-set".into(), format!("{}: expected structs {want_structs:?}, emitted {got_structs:?}", m.out_path())));
        }
        let mut want_enums: Vec<String> = m.enums().map(|e| e.name.clone()).collect();
        let mut got_enums: Vec<String> = v.enums.iter().map(|s| s.name.clone()).collect();
        want_enums.sort();
        got_enums.sort();
        if want_enums != got_enums {
            return Err(("enum-set".into(), format!("{}: expected enums {want_enums:?}, emitted {got_enums:?}", m.out_path())));
        }
        let mut want_acc: Vec<String> = m.ext_vals.iter().map(|e| format!("get_{}", e.name)).collect();
        let mut got_acc: Vec<String> = v.free_fns.iter().filter(|f| f.name.starts_with("get_")).map(|f| f.name.clone()).collect();
        want_acc.sort();
        got_acc.sort();
        if want_acc != got_acc {
            return Err(("accessor-set".into(), format!("{}: expected accessors {want_acc:?}, emitted {got_acc:?}", m.out_path())));
        }
        // prologues first, epilogues last, in source order, each exactly once; other backends absent
        let mut pro = vec![];
        let mut epi = vec![];
        for b in m.backends.iter() {
            if b.name == "rust" {
                if let Some(p) = &b.prologue {
                    pro.extend(markers(p));
                }
                if let Some(e) = &b.epilogue {
                    epi.extend(markers(e));
                }
            }
        }
        if src.contains("PV_OTHER_") || src.contains("not_rust_") {
            return Err(("foreign-backend-text".into(), format!("{}: text of another backend is included", m.out_path())));
        }
        let got_marks: Vec<(String, usize)> = v.consts.iter().filter(|(n, _)| n.starts_with("PV_MARK_")).cloned().collect();
        let want_marks: Vec<String> = pro.iter().chain(epi.iter()).cloned().collect();
        let got_names: Vec<String> = got_marks.iter().map(|(n, _)| n.clone()).collect();
        if got_names != want_marks {
            return Err(("backend-text".into(), format!("{}: expected prologue/epilogue items {want_marks:?} in this order, found {got_names:?}", m.out_path())));
        }
        // positions: generated items are structs, enums, impls, free fns
        let gen_positions: Vec<usize> = v
            .structs
            .iter()
            .map(|s| s.pos)
            .chain(v.enums.iter().map(|e| e.pos))
            .chain(v.free_fns.iter().map(|f| f.pos))
            .chain(v.methods.values().flat_map(|ms| ms.iter().map(|m| m.pos)))
            .collect();
        let first_gen = gen_positions.iter().min().copied();
        let last_gen = gen_positions.iter().max().copied();
        for (name, pos) in &got_marks {
            let is_pro = pro.contains(name);
            if let (Some(fg), Some(lg)) = (first_gen, last_gen) {
                if is_pro && *pos > fg {
                    return Err(("prologue-position".into(), format!("{}: prologue item {name} comes after a generated item", m.out_path())));
                }
                if !is_pro && *pos < lg {
                    return Err(("epilogue-position".into(), format!("{}: epilogue item {name} comes before a generated item", m.out_path())));
                }
            }
        }
        // extern types and built-ins are not emitted: covered by the exact struct set
    }
    Ok(())
}

impl Prop for Emission {
    type Case = Case;
    crate::prog_shrink!();
    fn name(&self) -> String {
        "C14/emission".into()
    }
    fn rule(&self) -> String {
        "multi-module inputs in nested directories from the rich generator (modules without items, several backend blocks per module in all three forms (sometimes one repeated verbatim), rust and other backends, prologue/epilogue texts holding uniquely named marker consts, extern types and values, vftable owners), built through pyxis::build on disk. Oracle: the files under the output directory are exactly {<module path>.rs}; each file holds exactly one struct per declared type plus one <T>Vftable per vftable block, exactly one enum per declared enum, exactly one get_<name> per extern value, nothing for extern types; rust prologue markers come before and epilogue markers after all generated items, each once and in source order; no text of other backends. Non-trivial: >=2 modules and (>=1 backend block or a nested directory)".into()
    }
    fn gen(&self, t: &mut Tape) -> Case {
        let w = if t.chance(1, 2) { 8 } else { 4 };
        let mut cfg = GenCfg::rich(w);
        cfg.max_mods = 6;
        cfg.max_items = 1 + t.below(10 * crate::driver::scale());
        let (mut prog, _, _) = gen_prog(t, cfg);
        // now and then a module repeats one of its backend blocks verbatim: written twice, emitted twice
        if t.chance(1, 4) {
            let with: Vec<usize> = (0..prog.mods.len()).filter(|&i| !prog.mods[i].backends.is_empty()).collect();
            if !with.is_empty() {
                let mi = with[t.below(with.len() as u64) as usize];
                let k = t.below(prog.mods[mi].backends.len() as u64) as usize;
                let b = prog.mods[mi].backends[k].clone();
                let pos = t.below(prog.mods[mi].backends.len() as u64 + 1) as usize;
                prog.mods[mi].backends.insert(pos, b);
            }
        }
        Case { prog, w }
    }
    fn judge(&self, c: &Case) -> Outcome {
        let res = build_via_lib(&print_prog(&c.prog), c.w as usize);
        let nested = c.prog.mods.iter().any(|m| m.path.len() > 1);
        let backends = c.prog.mods.iter().any(|m| !m.backends.is_empty());
        let empty_mod = c.prog.mods.iter().any(|m| m.items.is_empty() && m.ext_vals.is_empty());
        let nontrivial = c.prog.mods.len() >= 2 && (backends || nested);
        match res {
            Res::Panic(p) => Outcome::fail("panic", p),
            Res::Err(e) => Outcome::discard(&format!("rejected: {}", e.chars().filter(|c| !c.is_ascii_digit()).take(40).collect::<String>())),
            Res::Ok(b) => match check_emission(&c.prog, &b.files) {
                Ok(()) => {
                    let mut o = Outcome::pass(nontrivial);
                    let repeated = c.prog.mods.iter().any(|m| m.backends.iter().enumerate().any(|(i, b)| m.backends[..i].contains(b)));
                    for (k, v) in [("nested", nested), ("backends", backends), ("module-without-items", empty_mod), ("repeated-backend-block", repeated)] {
                        if v {
                            o = o.class(k);
                        }
                    }
                    o
                }
                Err((k, d)) => Outcome::fail(&k, d),
            },
        }
    }
    fn show(&self, c: &Case) -> Value {
        json!({"width": c.w, "pyxis": prog_text(&c.prog)})
    }
}

// ------------------------------------------------------------ collisions

#[derive(Clone, Serialize, Deserialize)]
pub struct CollisionCase {
    pub prog: Prog,
    pub w: u64,
    pub what: String,
}

pub struct Collisions;

fn small_type(name: &str, n: u64) -> TypeDef {
    TypeDef {
        vis: true,
        name: name.into(),
        packed: true,
        fields: vec![Field::new("bytes", Ty::Unk(n))],
        ..Default::default()
    }
}

impl Prop for Collisions {
    type Case = CollisionCase;
    crate::prog_shrink!();
    fn name(&self) -> String {
        "C14/collisions".into()
    }
    fn rule(&self) -> String {
        "an accepted program plus one injected collision: a second type / enum / extern type with the name of an existing item of the same module (before or after it), a body-less attribute-less `type Name;` in front of or behind the definition of a struct of that name, a user type named <T>Vftable next to a T that declares a vftable block, or a second extern value of an existing name. Oracle: the build is an error (never Ok with one of the two definitions silently missing). Every case is non-trivial".into()
    }
    fn gen(&self, t: &mut Tape) -> CollisionCase {
        let w = if t.chance(1, 2) { 8 } else { 4 };
        let mut cfg = GenCfg::rich(w);
        cfg.max_items = 1 + t.below(6);
        cfg.backends = false;
        cfg.docs = false;
        let (mut prog, _, _) = gen_prog(t, cfg);
        // choose a victim
        let mut victims: Vec<(usize, String, bool)> = vec![];
        for (mi, m) in prog.mods.iter().enumerate() {
            for it in &m.items {
                let has_vft = matches!(it, Item::Type(t) if t.vft.is_some());
                victims.push((mi, it.name().to_string(), has_vft));
            }
            for e in &m.ext_types {
                victims.push((mi, e.name.clone(), false));
            }
        }
        if victims.is_empty() {
            prog.mods[0].items.push(Item::Type(small_type("Only", 3)));
            victims.push((0, "Only".into(), false));
        }
        let (mi, name, has_vft) = victims[t.below(victims.len() as u64) as usize].clone();
        let what;
        let mut kind = t.below(if has_vft { 5 } else { 3 });
        let front = t.chance(1, 2);
        // one case in six: a second extern value of an existing name instead (two accessors get_<name>)
        let with_vals: Vec<usize> = (0..prog.mods.len()).filter(|&i| !prog.mods[i].ext_vals.is_empty()).collect();
        if !with_vals.is_empty() && t.chance(1, 6) {
            kind = 99;
        }
        // one case in six: a body-less declaration `type Name;` (no attributes) of an existing struct, in front of
        // or behind its definition
        let victim_is_struct = prog.mods[mi].types().any(|t| t.name == name);
        if kind != 99 && victim_is_struct && t.chance(1, 6) {
            kind = 98;
        }
        let m = &mut prog.mods[mi];
        match kind {
            99 => {
                let vm = with_vals[t.below(with_vals.len() as u64) as usize];
                let k = t.below(prog.mods[vm].ext_vals.len() as u64) as usize;
                let mut ev = prog.mods[vm].ext_vals[k].clone();
                what = format!("second extern value named {}", ev.name);
                ev.addr = Some(Num::d(0x7000));
                ev.ty = Ty::n("u8");
                if front {
                    prog.mods[vm].ext_vals.insert(0, ev)
                } else {
                    prog.mods[vm].ext_vals.push(ev)
                }
            }
            98 => {
                what = format!("body-less declaration of {name} {} its definition", if front { "in front of" } else { "behind" });
                let it = Item::Type(TypeDef {
                    sty: 0x10,
                    vis: t.chance(1, 2),
                    name: name.clone(),
                    ..Default::default()
                });
                if front {
                    m.items.insert(0, it)
                } else {
                    m.items.push(it)
                }
            }
            0 => {
                what = format!("second type named {name}");
                let it = Item::Type(small_type(&name, 5 + t.below(9)));
                if front {
                    m.items.insert(0, it)
                } else {
                    m.items.push(it)
                }
            }
            1 => {
                what = format!("enum named like {name}");
                let it = Item::Enum(EnumDef {
                    sty: 0,
                    vis: true,
                    name: name.clone(),
                    doc: vec![],
                    base: "u8".into(),
                    variants: vec![Variant {
                        sty: 0,
                        name: "A".into(),
                        value: None,
                        default: false,
                        doc: vec![],
                    }],
                    singleton: None,
                    copyable: false,
                    cloneable: false,
                    defaultable: false,
                });
                if front {
                    m.items.insert(0, it)
                } else {
                    m.items.push(it)
                }
            }
            2 => {
                what = format!("extern type named like {name}");
                m.ext_types.push(ExtType {
                    name: name.clone(),
                    size: Num::d(4),
                    align: Num::d(4),
                });
            }
            _ => {
                what = format!("user type named {name}Vftable next to {name} with a vftable block");
                let it = Item::Type(small_type(&format!("{name}Vftable"), 7));
                if front {
                    m.items.insert(0, it)
                } else {
                    m.items.push(it)
                }
            }
        }
        CollisionCase { prog, w, what }
    }
    fn judge(&self, c: &CollisionCase) -> Outcome {
        let res = build_via_lib(&print_prog(&c.prog), c.w as usize);
        let class = format!("collision:{}", c.what.split(' ').take(2).collect::<Vec<_>>().join("-"));
        match res {
            Res::Panic(p) => Outcome::fail("panic", p),
            Res::Err(_) => Outcome::pass(true).class(&class),
            Res::Ok(_) => Outcome::fail("silent-overwrite", format!("{}: the build succeeded", c.what)),
        }
    }
    fn show(&self, c: &CollisionCase) -> Value {
        json!({"width": c.w, "collision": c.what, "pyxis": prog_text(&c.prog)})
    }
}

// ------------------------------------------------------------ dotted paths

/// Directory and file names with dots in them.
pub struct DottedPaths;

const DOT_DIRS: &[&str] = &["game", "game.v2", "game.v3", "v1.2", "a.b.c", "core", ".hidden"];
const DOT_STEMS: &[&str] = &["actor", "actor.v2", "a", "a.v2", "a.b.c", "types.gen", "m.pyxis"];

impl Prop for DottedPaths {
    type Case = Case;
    crate::prog_shrink!();
    fn name(&self) -> String {
        "C14/dotted-paths".into()
    }
    fn rule(&self) -> String {
        "2-6 modules whose directory names and file stems are drawn from small pools with dots in them (game, game.v2, game.v3, v1.2, a.b.c, .hidden / actor, actor.v2, a, a.v2, types.gen, m.pyxis), so that siblings share a stem up to the first or last dot; each module holds self-contained items (packed byte structs, enums, extern values of scalar type: nothing whose emitted code names the module path), built through pyxis::build on disk. Oracle as in C14/emission: the output files are exactly {<input path minus .pyxis>.rs} and each holds exactly its module's items. Non-trivial: two modules whose paths differ only after a dot".into()
    }
    fn gen(&self, t: &mut Tape) -> Case {
        let w = if t.chance(1, 2) { 8 } else { 4 };
        let n = 2 + t.below(5) as usize;
        let mut prog = Prog::default();
        let mut k = 0u64;
        while prog.mods.len() < n {
            let depth = t.below(3) as usize;
            let mut path: Vec<String> = (0..depth).map(|_| t.pick(DOT_DIRS).to_string()).collect();
            path.push(t.pick(DOT_STEMS).to_string());
            if prog.mods.iter().any(|m: &Mod| m.path == path) {
                // simplest tape: count up instead of looping forever
                path = vec![format!("extra{}", prog.mods.len())];
            }
            let mut m = Mod {
                path,
                ..Default::default()
            };
            let items = t.below(4);
            for _ in 0..items {
                k += 1;
                match t.below(3) {
                    0 => m.items.push(Item::Type(small_type(&format!("T{k}"), 1 + t.below(9)))),
                    1 => m.items.push(Item::Enum(EnumDef {
                        sty: 0,
                        vis: true,
                        name: format!("E{k}"),
                        doc: vec![],
                        base: "u8".into(),
                        variants: vec![Variant {
                            sty: 0,
                            name: "A".into(),
                            value: None,
                            default: false,
                            doc: vec![],
                        }],
                        singleton: None,
                        copyable: false,
                        cloneable: false,
                        defaultable: false,
                    })),
                    _ => m.ext_vals.push(ExtVal {
                        sty: 0,
                        vis: true,
                        name: format!("g{k}"),
                        ty: Ty::n("u32"),
                        addr: Some(Num::d(0x1000 + 16 * k as i128)),
                        doc: vec![],
                    }),
                }
            }
            prog.mods.push(m);
        }
        Case { prog, w }
    }
    fn judge(&self, c: &Case) -> Outcome {
        let res = build_via_lib(&print_prog(&c.prog), c.w as usize);
        // two paths that are equal once everything after some dot of a segment is dropped
        let stem = |p: &Vec<String>| -> Vec<String> { p.iter().map(|s| s.split('.').next().unwrap_or("").to_string()).collect() };
        let dotted = c.prog.mods.iter().any(|m| m.path.iter().any(|s| s.contains('.')));
        let siblings = c.prog.mods.iter().enumerate().any(|(i, a)| c.prog.mods.iter().skip(i + 1).any(|b| stem(&a.path) == stem(&b.path)));
        match res {
            Res::Panic(p) => Outcome::fail("panic", p),
            Res::Err(e) => Outcome::discard(&format!("rejected: {}", e.chars().filter(|c| !c.is_ascii_digit()).take(40).collect::<String>())),
            Res::Ok(b) => match check_emission(&c.prog, &b.files) {
                Ok(()) => {
                    let mut o = Outcome::pass(siblings);
                    for (k, v) in [("dotted-segment", dotted), ("siblings-up-to-a-dot", siblings), ("dotted-directory", c.prog.mods.iter().any(|m| m.path[..m.path.len() - 1].iter().any(|s| s.contains('.'))))] {
                        if v {
                            o = o.class(k);
                        }
                    }
                    o
                }
                Err((k, d)) => Outcome::fail(&k, d),
            },
        }
    }
    fn show(&self, c: &Case) -> Value {
        json!({"width": c.w, "pyxis": prog_text(&c.prog)})
    }
}

pub fn props() -> Vec<Box<dyn DynProp>> {
    vec![Box::new(Emission), Box::new(Collisions), Box::new(DottedPaths)]
}

pub fn run(ctx: &mut Ctx) {
    let q = ctx.quick();
    ctx.run(&Emission, &Params::new(if q { 6_000 } else { 200_000 }, 100, 2500).shrink(300));
    ctx.run(&Collisions, &Params::new(if q { 3_000 } else { 100_000 }, 100, 1500).shrink(300));
    ctx.run(&DottedPaths, &Params::new(if q { 3_000 } else { 100_000 }, 40, 400).shrink(200));
}
