//! C10 — resolution succeeds exactly when names exist and by-value embedding is acyclic.

use std::collections::BTreeSet;

use serde::{Deserialize, Serialize};
use serde_json::{json, Value};

use crate::driver::*;
use crate::model::*;
use crate::pipeline::*;
use crate::refmodel::*;
use crate::rsview;
use crate::tape::Tape;

#[derive(Clone, Serialize, Deserialize)]
pub struct Case {
    pub prog: Prog,
    pub w: u64,
}

pub struct Graph;

fn mk_func(name: String, args: Vec<Arg>, ret: Option<Ty>, addr: u64) -> Func {
    Func {
        more: vec![],
        sty: 0,
        vis: true,
        name,
        doc: vec![],
        args,
        ret,
        addr: Some(Num::d(addr as i128)),
        index: None,
        cc: None,
    }
}

pub fn gen_graph(t: &mut Tape) -> Prog {
    let nm = 1 + t.below(4) as usize;
    let nt = 2 + t.below(11) as usize;
    let ne = t.below(3) as usize;
    let mut prog = Prog::default();
    // in a third of the programs some modules are children of others (g0/g1.pyxis next to g0.pyxis):
    // a parent may then import its own child, and a child its parent
    let nest = t.chance(1, 3);
    for i in 0..nm {
        let mut path = vec![];
        if nest && i > 0 && t.chance(1, 2) {
            let j = t.below(i as u64) as usize;
            path = prog.mods[j].path.clone();
        }
        path.push(format!("g{i}"));
        prog.mods.push(Mod {
            path,
            ..Default::default()
        });
    }
    // placement
    let tmod: Vec<usize> = (0..nt).map(|_| t.below(nm as u64) as usize).collect();
    let emod: Vec<usize> = (0..ne).map(|_| t.below(nm as u64) as usize).collect();
    // one program in three: some types of different modules share a short name, so that which definition a
    // bare name denotes (and with it the whole dependency graph) follows from the scoping rules
    let mut names: Vec<String> = (0..nt).map(|i| format!("N{i}")).collect();
    if t.chance(1, 3) {
        for i in 1..nt {
            if t.chance(1, 3) {
                let j = t.below(i as u64) as usize;
                let cand = names[j].clone();
                if tmod[i] != tmod[j] && !(0..nt).any(|k| k != i && tmod[k] == tmod[i] && names[k] == cand) {
                    names[i] = cand;
                }
            }
        }
    }
    let tname = |i: usize| names[i].clone();
    let ename = |i: usize| format!("En{i}");
    let mut missing_counter = 0;
    // imports are added as references are made
    fn import(prog: &mut Prog, from: usize, def: usize, name: &str, by_name: bool) {
        if from == def {
            return;
        }
        let modp = prog.mods[def].path.clone();
        let mut typep = modp.clone();
        typep.push(name.to_string());
        let uses = &prog.mods[from].uses;
        if uses.contains(&modp) || uses.contains(&typep) {
            return;
        }
        prog.mods[from].uses.push(if by_name { typep } else { modp });
    }
    // how likely a "dangerous" choice is, per program
    let p_cycle = t.below(4); // 0: never pick a backward by-value target
    let p_missing = t.below(4);
    let chainy = t.chance(1, 2);
    let mut addr = 0x1000u64;
    let mut tdefs: Vec<TypeDef> = vec![];
    // which types own a vftable block is decided up front (base edges need to know)
    let has_vft: Vec<bool> = (0..nt).map(|_| t.chance(1, 4)).collect();
    for i in 0..nt {
        let m = tmod[i];
        let mut td = TypeDef {
            vis: true,
            name: tname(i),
            packed: true,
            ..Default::default()
        };
        // some types own a vftable: the generated <T>Vftable item must not disturb resolution either
        if has_vft[i] {
            td.vft = Some(Vft {
                size: None,
                funcs: vec![Func {
                    more: vec![],
                    sty: 0,
                    vis: true,
                    name: format!("v{i}"),
                    doc: vec![],
                    args: vec![Arg::ConstSelf],
                    ret: None,
                    addr: None,
                    index: None,
                    cc: None,
                }],
            });
        }
        let nf = t.below(4) as usize + if chainy && i + 1 < nt { 1 } else { 0 };
        for fi in 0..nf {
            // target
            let kind = t.below(10);
            let mut pick_type = |t: &mut Tape, by_value: bool| -> usize {
                if by_value {
                    if chainy && fi == 0 && i + 1 < nt {
                        return i + 1;
                    }
                    if i + 1 < nt && !(p_cycle > 0 && t.below(12) < p_cycle) {
                        i + 1 + t.below((nt - i - 1) as u64) as usize
                    } else if p_cycle > 0 {
                        t.below(nt as u64) as usize
                    } else {
                        usize::MAX
                    }
                } else {
                    t.below(nt as u64) as usize
                }
            };
            let is_missing = p_missing > 0 && t.below(40) < p_missing;
            let (ty, base) = if is_missing {
                missing_counter += 1;
                let n = Ty::Named(format!("Missing{missing_counter}"));
                (
                    match t.below(5) {
                        0 => n,
                        1 => n.cptr(),
                        2 => n.cptr().mptr(),
                        3 => n.mptr().arr(2),
                        _ => n.arr(2),
                    },
                    false,
                )
            } else {
                match kind {
                    0..=2 => {
                        let j = pick_type(t, true);
                        if j == usize::MAX {
                            (Ty::n("u32"), false)
                        } else {
                            let by_name = t.chance(1, 2);
                            import(&mut prog, m, tmod[j], &tname(j), by_name);
                            (Ty::Named(tname(j)), false)
                        }
                    }
                    3 => {
                        let j = pick_type(t, true);
                        if j == usize::MAX {
                            (Ty::n("u8").arr(3), false)
                        } else {
                            let by_name = t.chance(1, 2);
                            import(&mut prog, m, tmod[j], &tname(j), by_name);
                            (Ty::Named(tname(j)).arr(t.below(4)), false) // also zero-length: still a by-value dependency
                        }
                    }
                    4 => {
                        // base sub-object (by value)
                        let j = pick_type(t, true);
                        if j == usize::MAX {
                            (Ty::n("u16"), false)
                        } else {
                            let by_name = t.chance(1, 2);
                            import(&mut prog, m, tmod[j], &tname(j), by_name);
                            // a type with its own block would have to restate an (inherited) base table (C06's business): then a plain member
                            (Ty::Named(tname(j)), !has_vft[i])
                        }
                    }
                    5..=7 => {
                        let j = pick_type(t, false);
                        let by_name = t.chance(1, 2);
                        import(&mut prog, m, tmod[j], &tname(j), by_name);
                        let n = Ty::Named(tname(j));
                        (
                            match t.below(4) {
                                0 => n.cptr(),
                                1 => n.mptr(),
                                2 => n.cptr().mptr(),
                                _ => n.mptr().arr(2),
                            },
                            false,
                        )
                    }
                    8 if ne > 0 => {
                        let j = t.below(ne as u64) as usize;
                        let by_name = t.chance(1, 2);
                        import(&mut prog, m, emod[j], &ename(j), by_name);
                        (Ty::Named(ename(j)), false)
                    }
                    _ => (Ty::n(*t.pick(&["u8", "u32", "u64", "f32", "i16"])), false),
                }
            };
            let mut f = Field::new(&format!("f{fi}"), ty);
            f.base = base;
            td.fields.push(f);
        }
        // virtual functions with signatures over names (also undefined ones, also behind two pointers)
        if td.vft.is_some() && t.chance(1, 2) {
            let na = 1 + t.below(2);
            let mut tys = vec![];
            for _ in 0..=na {
                let ty = if p_missing > 0 && t.below(30) < p_missing {
                    missing_counter += 1;
                    let n = Ty::Named(format!("Missing{missing_counter}"));
                    match t.below(3) {
                        0 => n,
                        1 => n.cptr(),
                        _ => n.cptr().mptr(),
                    }
                } else {
                    let j = t.below(nt as u64) as usize;
                    let by_name = t.chance(1, 2);
                    import(&mut prog, m, tmod[j], &tname(j), by_name);
                    let n = Ty::Named(tname(j));
                    match t.below(3) {
                        0 => n.cptr(),
                        1 => n.mptr(),
                        _ => n.cptr().cptr(),
                    }
                };
                tys.push(ty);
            }
            let f = &mut td.vft.as_mut().unwrap().funcs[0];
            let ret = tys.pop();
            for (a, ty) in tys.into_iter().enumerate() {
                f.args.push(Arg::Named(format!("a{a}"), ty));
            }
            if t.chance(1, 2) {
                f.ret = ret;
            }
        }
        tdefs.push(td);
        // impl functions with signatures over names
        if t.chance(1, 3) {
            let nfun = 1 + t.below(2);
            let mut funcs = vec![];
            for k in 0..nfun {
                let mut args = vec![Arg::ConstSelf];
                let na = t.below(3);
                let mut sig_ty = |t: &mut Tape, prog: &mut Prog| -> Ty {
                    if p_missing > 0 && t.below(30) < p_missing {
                        missing_counter += 1;
                        let n = Ty::Named(format!("Missing{missing_counter}"));
                        if t.chance(1, 2) {
                            n.cptr()
                        } else {
                            n
                        }
                    } else {
                        let j = t.below(nt as u64) as usize;
                        let by_name = t.chance(1, 2);
                        import(prog, m, tmod[j], &tname(j), by_name);
                        let n = Ty::Named(tname(j));
                        match t.below(3) {
                            0 => n,
                            1 => n.cptr(),
                            _ => n.mptr(),
                        }
                    }
                };
                for a in 0..na {
                    let ty = sig_ty(t, &mut prog);
                    args.push(Arg::Named(format!("a{a}"), ty));
                }
                let ret = if t.chance(1, 2) { Some(sig_ty(t, &mut prog)) } else { None };
                addr += 0x10;
                // some with an underscore name: no wrapper is emitted for those, their signature has to resolve anyway
                let fname = if t.chance(1, 4) { format!("_m{i}_{k}") } else { format!("m{i}_{k}") };
                funcs.push(mk_func(fname, args, ret, addr));
            }
            prog.mods[m].impls.push(Impl { more: vec![], ty: tname(i), funcs });
        }
    }
    for (i, td) in tdefs.into_iter().enumerate() {
        prog.mods[tmod[i]].items.push(Item::Type(td));
    }
    for j in 0..ne {
        let base = if p_missing > 0 && t.below(20) < p_missing {
            missing_counter += 1;
            format!("Missing{missing_counter}")
        } else {
            t.pick(INT_TYPES).to_string()
        };
        prog.mods[emod[j]].items.push(Item::Enum(EnumDef {
            sty: 0,
            vis: true,
            name: ename(j),
            doc: vec![],
            base,
            variants: vec![
                Variant {
                    sty: 0,
                    name: "A".into(),
                    value: None,
                    default: false,
                    doc: vec![],
                },
                Variant {
                    sty: 0,
                    name: "B".into(),
                    value: None,
                    default: false,
                    doc: vec![],
                },
            ],
            singleton: None,
            copyable: false,
            cloneable: false,
            defaultable: false,
        }));
    }
    // extern values
    let nev = t.below(3);
    for k in 0..nev {
        let m = t.below(nm as u64) as usize;
        let ty = if p_missing > 0 && t.below(20) < p_missing {
            missing_counter += 1;
            let n = Ty::Named(format!("Missing{missing_counter}"));
            match t.below(3) {
                0 => n.cptr(),
                1 => n.cptr().mptr(),
                _ => n.mptr().arr(2),
            }
        } else {
            let j = t.below(nt as u64) as usize;
            let by_name = t.chance(1, 2);
            import(&mut prog, m, tmod[j], &tname(j), by_name);
            let n = Ty::Named(tname(j));
            if t.chance(1, 2) {
                n.mptr()
            } else {
                n
            }
        };
        addr += 0x100;
        prog.mods[m].ext_vals.push(ExtVal {
            sty: 0,
            vis: true,
            name: format!("ev{k}"),
            ty,
            addr: Some(Num::d(addr as i128)),
            doc: vec![],
        });
    }
    // shuffle the order of items inside each module a little: definitions may appear in any order
    for m in prog.mods.iter_mut() {
        let n = m.items.len();
        for i in (1..n).rev() {
            if t.chance(1, 2) {
                let j = t.below(i as u64 + 1) as usize;
                m.items.swap(i, j);
            }
        }
    }
    prog
}

pub struct Expect {
    pub stuck: BTreeSet<String>,
    pub resolvable: BTreeSet<String>,
    /// names that do not bind in signatures / extern values / (for information) fields
    pub sig_problem: bool,
    pub base_not_struct: bool,
    pub has_cycle: bool,
    pub has_undefined: bool,
    pub longest_chain: usize,
}

pub fn expect(prog: &Prog, w: u64) -> Expect {
    let mut model = Model::new(prog, w);
    let mut stuck = BTreeSet::new();
    let mut resolvable = BTreeSet::new();
    let mut has_cycle = false;
    let mut has_undefined = false;
    let mut sig_problem = false;
    let mut base_not_struct = false;
    for (mi, m) in prog.mods.iter().enumerate() {
        for (ii, it) in m.items.iter().enumerate() {
            let path = format!("{}::{}", m.path_str(), it.name());
            match model.item_info(mi, ii) {
                Ok(_) => {
                    resolvable.insert(path);
                }
                Err(s) => {
                    match s {
                        Stuck::Cycle => has_cycle = true,
                        Stuck::Undefined(_) => has_undefined = true,
                        Stuck::Dep => {}
                    }
                    stuck.insert(path);
                }
            }
            if let Item::Type(td) = it {
                for f in &td.fields {
                    if f.base {
                        if let Ty::Named(n) = &f.ty {
                            if let Some(Bind::Item(bm, bi)) = model.bind(mi, n) {
                                if !matches!(prog.mods[bm].items[bi], Item::Type(_)) {
                                    base_not_struct = true;
                                }
                            } else if model.bind(mi, n).is_some() {
                                base_not_struct = true;
                            }
                        } else {
                            base_not_struct = true;
                        }
                    }
                }
            }
        }
        let vfuncs: Vec<&Func> = m.types().filter_map(|t| t.vft.as_ref()).flat_map(|v| v.funcs.iter()).collect();
        for f in m.impls.iter().flat_map(|im| im.funcs.iter()).chain(vfuncs.into_iter()) {
            {
                for a in &f.args {
                    if let Arg::Named(_, t) = a {
                        if model.names_bind(mi, t).is_err() {
                            sig_problem = true;
                            has_undefined = true;
                        }
                    }
                }
                if let Some(r) = &f.ret {
                    if model.names_bind(mi, r).is_err() {
                        sig_problem = true;
                        has_undefined = true;
                    }
                }
            }
        }
        for ev in &m.ext_vals {
            if model.names_bind(mi, &ev.ty).is_err() {
                sig_problem = true;
                has_undefined = true;
            }
        }
    }
    // longest by-value chain (only meaningful when acyclic)
    let mut longest = 0;
    if !has_cycle {
        fn depth(prog: &Prog, model: &Model, mi: usize, ii: usize, memo: &mut std::collections::BTreeMap<(usize, usize), usize>, guard: usize) -> usize {
            if guard > 64 {
                return 0;
            }
            if let Some(d) = memo.get(&(mi, ii)) {
                return *d;
            }
            let mut d = 1;
            if let Item::Type(td) = &prog.mods[mi].items[ii] {
                for f in &td.fields {
                    let mut t = &f.ty;
                    while let Ty::Arr(e, _) = t {
                        t = e;
                    }
                    if let Ty::Named(n) = t {
                        if let Some(Bind::Item(bm, bi)) = model.bind(mi, n) {
                            d = d.max(1 + depth(prog, model, bm, bi, memo, guard + 1));
                        }
                    }
                }
            }
            memo.insert((mi, ii), d);
            d
        }
        let mut memo = Default::default();
        for (mi, m) in prog.mods.iter().enumerate() {
            for ii in 0..m.items.len() {
                longest = longest.max(depth(prog, &model, mi, ii, &mut memo, 0));
            }
        }
    }
    Expect {
        stuck,
        resolvable,
        sig_problem,
        base_not_struct,
        has_cycle,
        has_undefined,
        longest_chain: longest,
    }
}

fn mentions(msg: &str, path: &str) -> bool {
    // whole-token match: the path must not be a prefix/suffix of a longer path or identifier
    let bytes = msg.as_bytes();
    let mut start = 0;
    while let Some(pos) = msg[start..].find(path) {
        let i = start + pos;
        let j = i + path.len();
        let before_ok = i == 0 || !(bytes[i - 1].is_ascii_alphanumeric() || bytes[i - 1] == b'_' || bytes[i - 1] == b':');
        let after_ok = j >= bytes.len() || !(bytes[j].is_ascii_alphanumeric() || bytes[j] == b'_' || bytes[j] == b':');
        if before_ok && after_ok {
            return true;
        }
        start = i + 1;
    }
    false
}

/// Everything the input declares must be in the output, with every reference intact.
pub fn check_complete(prog: &Prog, w: u64, built: &Built) -> Result<(), String> {
    let mut model = Model::new(prog, w);
    for (mi, m) in prog.mods.iter().enumerate() {
        let Some(src) = built.files.get(&m.out_path()) else {
            return Err(format!("no output file {} for module {}", m.out_path(), m.path_str()));
        };
        let v = rsview::view(src)?;
        for it in &m.items {
            match it {
                Item::Type(td) => {
                    let Some(s) = v.strukt(&td.name) else {
                        return Err(format!("type {}::{} is missing from {}", m.path_str(), td.name, m.out_path()));
                    };
                    for f in &td.fields {
                        if f.name == "_" {
                            continue;
                        }
                        // pinned from the code (DESIGN §2.2): a zero-sized *array* region produces no field
                        if matches!(f.ty, Ty::Arr(..) | Ty::Unk(_)) {
                            if let TyRes::Ok { size: 0, .. } = model.ty_info(mi, &f.ty) {
                                continue;
                            }
                        }
                        let Some(fv) = s.fields.iter().find(|x| x.name == f.name) else {
                            return Err(format!("field {}.{} is missing from the emitted struct", td.name, f.name));
                        };
                        let want = model.rust_ty(mi, &f.ty).ok_or("model cannot bind")?;
                        if fv.ty != want {
                            return Err(format!("field {}.{}: emitted type `{}`, expected `{}`", td.name, f.name, fv.ty, want));
                        }
                    }
                }
                Item::Enum(e) => {
                    let Some(ev) = v.enm(&e.name) else {
                        return Err(format!("enum {}::{} is missing from {}", m.path_str(), e.name, m.out_path()));
                    };
                    if !ev.attrs.repr.contains(&e.base) {
                        return Err(format!("enum {}: repr {:?}, expected base {}", e.name, ev.attrs.repr, e.base));
                    }
                }
            }
        }
        for im in &m.impls {
            for f in &im.funcs {
                // functions with an underscore name get no wrapper
                if f.name.starts_with('_') {
                    continue;
                }
                let Some(mv) = v.method(&im.ty, &f.name) else {
                    return Err(format!("method {}::{} is missing", im.ty, f.name));
                };
                let named: Vec<&Ty> = f
                    .args
                    .iter()
                    .filter_map(|a| match a {
                        Arg::Named(_, t) => Some(t),
                        _ => None,
                    })
                    .collect();
                if named.len() != mv.args.len() {
                    return Err(format!("method {}::{}: {} parameters emitted, {} declared", im.ty, f.name, mv.args.len(), named.len()));
                }
                for (t, (_, got)) in named.iter().zip(mv.args.iter()) {
                    let want = model.rust_ty(mi, t).ok_or("model cannot bind")?;
                    if *got != want {
                        return Err(format!("method {}::{}: parameter type `{got}`, expected `{want}`", im.ty, f.name));
                    }
                }
                let want_ret = match &f.ret {
                    Some(t) => Some(model.rust_ty(mi, t).ok_or("model cannot bind")?),
                    None => None,
                };
                if mv.ret != want_ret {
                    return Err(format!("method {}::{}: return type {:?}, expected {:?} (reference dropped)", im.ty, f.name, mv.ret, want_ret));
                }
            }
        }
        for ev in &m.ext_vals {
            let Some(fv) = v.free_fns.iter().find(|f| f.name == format!("get_{}", ev.name)) else {
                return Err(format!("accessor get_{} is missing", ev.name));
            };
            let want = format!("&'staticmut{}", model.rust_ty(mi, &ev.ty).ok_or("model cannot bind")?);
            if fv.ret.as_deref() != Some(want.as_str()) {
                return Err(format!("accessor get_{}: return type {:?}, expected `{want}`", ev.name, fv.ret));
            }
        }
    }
    Ok(())
}

impl Prop for Graph {
    type Case = Case;
    crate::prog_shrink!();
    fn name(&self) -> String {
        "C10/graph".into()
    }
    fn rule(&self) -> String {
        "dependency graphs: 2-12 packed types (a quarter of them with a vftable block; in a third of the programs some share a short name across modules, so that the scoping rules decide the graph) and 0-2 enums in 1-4 modules (in a third of the programs some modules are children of others); fields by value / in arrays / as #[base] / behind pointers, targets forward, backward, self, enums, undefined names; impl signatures and extern values over the same names; items shuffled inside modules. Oracle: build Ok iff the reference model binds every name and finds no by-value cycle; on Ok every declared type, enum, field, parameter, return type and extern value appears in the output with the expected fully qualified type (syn); on Err caused by fields only, the message names every stuck type path (whole token) and, inside its `failed on types: [...]` list, no resolvable one. Non-trivial: by-value chain >= 3 over >= 4 types, or any cycle, or any undefined name".into()
    }
    fn gen(&self, t: &mut Tape) -> Case {
        let w = if t.chance(1, 2) { 8 } else { 4 };
        Case { prog: gen_graph(t), w }
    }
    fn judge(&self, c: &Case) -> Outcome {
        let ex = expect(&c.prog, c.w);
        if ex.base_not_struct {
            return Outcome::discard("base-field-is-not-a-struct");
        }
        let files = print_prog(&c.prog);
        let res = build_mem(&files, c.w as usize, &MemOpts::default());
        let n_types: usize = c.prog.mods.iter().map(|m| m.items.len()).sum();
        let nontrivial = (n_types >= 4 && ex.longest_chain >= 3) || ex.has_cycle || ex.has_undefined;
        let should_ok = ex.stuck.is_empty() && !ex.sig_problem;
        let mut classes = vec![];
        classes.push(format!("expect:{}", if should_ok { "ok" } else if ex.sig_problem && ex.stuck.is_empty() { "err-signature" } else if ex.has_cycle { "err-cycle" } else { "err-undefined" }));
        classes.push(format!("chain:{}", ex.longest_chain.min(12)));
        let o = match (&res, should_ok) {
            (Res::Panic(p), _) => Outcome::fail("panic", format!("pyxis panicked: {p}")),
            (Res::Ok(b), true) => match check_complete(&c.prog, c.w, b) {
                Ok(()) => Outcome::pass(nontrivial),
                Err(e) => Outcome::fail("incomplete-output", e),
            },
            (Res::Ok(_), false) => Outcome::fail(
                "spurious-ok",
                format!("model: stuck types {:?}, signature/extern problem: {}; pyxis succeeded", ex.stuck, ex.sig_problem),
            ),
            (Res::Err(e), true) => Outcome::fail("spurious-err", format!("model: everything resolvable; pyxis: {e}")),
            (Res::Err(e), false) => {
                if !ex.sig_problem && !ex.stuck.is_empty() {
                    classes.push("message-checked".into());
                    let missing: Vec<&String> = ex.stuck.iter().filter(|p| !mentions(e, p)).collect();
                    if !missing.is_empty() {
                        return Outcome::fail("message-misses-stuck-type", format!("error does not mention unresolvable {missing:?}\nmessage: {e}")).with_classes(classes);
                    }
                    // exactness: inside the list of failed types
                    if let Some(i) = e.find("failed on types: [") {
                        let rest = &e[i + "failed on types: [".len()..];
                        if let Some(j) = rest.find(']') {
                            let list = &rest[..j];
                            let extra: Vec<&String> = ex.resolvable.iter().filter(|p| mentions(list, p)).collect();
                            if !extra.is_empty() {
                                return Outcome::fail("message-lists-resolvable-type", format!("error lists resolvable types {extra:?} as failed\nmessage: {e}")).with_classes(classes);
                            }
                            classes.push("exactness-checked".into());
                        }
                    }
                }
                Outcome::pass(nontrivial)
            }
        };
        o.with_classes(classes)
    }
    fn show(&self, c: &Case) -> Value {
        json!({"width": c.w, "pyxis": prog_text(&c.prog)})
    }
    fn fixed_cases(&self) -> Vec<Case> {
        let mut v = vec![];
        // by-value chains of depth 2..=48 defined in the worst order, spread over 4 modules
        for depth in [2usize, 3, 5, 8, 13, 21, 34, 48] {
            let mut prog = Prog::default();
            for i in 0..4 {
                prog.mods.push(Mod {
                    path: vec![format!("g{i}")],
                    uses: (0..4).filter(|j| *j != i).map(|j| vec![format!("g{j}")]).collect(),
                    ..Default::default()
                });
            }
            for i in 0..depth {
                let mut td = TypeDef {
                    vis: true,
                    name: format!("N{i}"),
                    packed: true,
                    ..Default::default()
                };
                td.fields.push(Field::new("x", Ty::n("u8")));
                if i + 1 < depth {
                    td.fields.push(Field::new("next", Ty::Named(format!("N{}", i + 1))));
                    td.fields.push(Field::new("back", Ty::Named("N0".into()).cptr()));
                }
                prog.mods[i % 4].items.push(Item::Type(td));
            }
            v.push(Case { prog: prog.clone(), w: 4 });
            // and the same chain closed into a by-value cycle of that length
            let last = depth - 1;
            if let Item::Type(td) = prog.mods[last % 4].items.last_mut().unwrap() {
                td.fields.push(Field::new("next", Ty::Named("N0".into())));
            }
            v.push(Case { prog, w: 8 });
        }
        v
    }
}

pub fn props() -> Vec<Box<dyn DynProp>> {
    vec![Box::new(Graph)]
}

pub fn run(ctx: &mut Ctx) {
    let q = ctx.quick();
    ctx.run(&Graph, &Params::new(if q { 100_000 } else { 3_000_000 }, 60, 900));
}
