//! C01 — declared field addresses are the real offsets (rustc is the judge).

use serde_json::Value;

use super::l2common::*;
use crate::driver::*;
use crate::model::*;
use crate::tape::Tape;

pub struct Offsets;

impl Prop for Offsets {
    type Case = Case;
    crate::prog_shrink!();
    fn name(&self) -> String {
        "C01/offsets".into()
    }
    fn rule(&self) -> String {
        "multi-type programs from the layout generator (explicit addresses, implicit placement, unknown<N> gaps, pointers, arrays, nested/extern/enum-typed fields, vftable pointer, base sub-objects, packed / aligned), generated for width 4 or 8 and accepted by pyxis. For every named emitted field a probe `const _: [(); EXPECTED] = [(); offset_of!(T, f)]` with EXPECTED = explicit address, else end of the preceding statement, is type-checked by rustc for that width (stable host for 8, nightly i686-pc-windows-msvc for 4); the model's field-type sizes are cross-checked with size_of probes. Non-trivial: >=1 struct with >=2 named fields and one of {explicit gap, nested by value, vftable pointer, packed misaligned field}; crates that do not compile for unrelated reasons are discarded (C13)".into()
    }
    fn gen(&self, t: &mut Tape) -> Case {
        gen_l2_case(t, false)
    }
    fn judge(&self, c: &Case) -> Outcome {
        judge_offsets(c)
    }
    fn show(&self, c: &Case) -> Value {
        show_case(c)
    }
}

fn judge_offsets(c: &Case) -> Outcome {
    {
        let st = features(&c.prog, c.w);
        let mut run = match run_l2(&c.prog, c.w, Which::Offsets) {
            Ok(r) => r,
            Err(o) => return o,
        };
        // the same description at the other pointer width, when it is valid there too (pointer-free layouts mostly)
        let other = if c.w == 4 { 8 } else { 4 };
        let mut both = false;
        if run.out.probes.iter().all(|p| p.found.is_none()) && run.out.errors.is_empty() && crate::checks::c13::other_width_ok(c) {
            if let Ok(r2) = run_l2(&c.prog, other, Which::Offsets) {
                if r2.out.probes.iter().any(|p| p.found.is_some()) {
                    run = r2;
                } else if r2.out.errors.is_empty() {
                    both = true;
                }
            }
        }
        let bad: Vec<_> = run.out.probes.iter().filter(|p| p.found.is_some()).collect();
        if !bad.is_empty() {
            let mut d = String::new();
            for p in bad.iter().take(6) {
                d.push_str(&format!("{}: expected {}, rustc says {}\n", p.label, p.expected, p.found.map(|v| if v == u64::MAX { "?".to_string() } else { v.to_string() }).unwrap()));
            }
            let kind = if bad.iter().any(|p| p.label.starts_with("offset_of")) { "offset-mismatch" } else { "field-size-mismatch" };
            return Outcome::fail(kind, d);
        }
        if !run.out.errors.is_empty() {
            let mut codes: Vec<String> = run.out.errors.iter().map(|d| d.code.clone()).collect();
            codes.sort();
            codes.dedup();
            return Outcome::discard(&format!("crate-does-not-compile (C13's business): {}", codes.join("+")));
        }
        let nontrivial = st.structs >= 1 && st.named_fields >= 2 && (st.explicit_gap || st.nested_by_value || st.vptr || st.packed_misaligned);
        let mut o = Outcome::pass(nontrivial).class(&format!("width:{}", c.w));
        if both {
            o = o.class("both-widths");
        }
        for (k, v) in [("explicit_gap", st.explicit_gap), ("nested_by_value", st.nested_by_value), ("vptr", st.vptr), ("packed_misaligned", st.packed_misaligned), ("bases", st.bases), ("cross_module", st.cross_module)] {
            if v {
                o = o.class(k);
            }
        }
        o.class(&format!("probes:{}", match run.out.probes.len() { 0 => "0", 1..=9 => "1-9", 10..=49 => "10-49", _ => "50+" }))
    }
}

// ------------------------------------------------------------ chains that share one table pointer

/// Hierarchies of three to five levels over a root with a vftable, in which a level may put a member or a gap
/// in front of its base and may or may not restate (and extend) the table.
pub struct SharedPointerChains;

fn chain_case(t: &mut Tape) -> Case {
    let w: u64 = if t.chance(1, 2) { 8 } else { 4 };
    let word = if w == 8 { "u64" } else { "u32" };
    let vf = |name: String, konst: bool, arg: bool| Func {
        sty: 0,
        more: vec![],
        vis: true,
        name,
        doc: vec![],
        args: {
            let mut a = vec![if konst { Arg::ConstSelf } else { Arg::MutSelf }];
            if arg {
                a.push(Arg::Named("x".into(), Ty::n("u32")));
            }
            a
        },
        ret: None,
        addr: None,
        index: None,
        cc: None,
    };
    let mut table: Vec<Func> = (0..1 + t.below(3)).map(|i| vf(format!("v{i}"), t.chance(1, 2), t.chance(1, 2))).collect();
    let mut m = Mod {
        path: vec!["m".into()],
        ..Default::default()
    };
    let mut root_fields = vec![];
    for i in 0..t.below(3) {
        root_fields.push(Field::new(&format!("r{i}"), Ty::n(word)));
    }
    m.items.push(Item::Type(TypeDef {
        vis: true,
        name: "L0".into(),
        vft: Some(Vft { size: None, funcs: table.clone() }),
        fields: root_fields,
        ..Default::default()
    }));
    let depth = 2 + t.below(3);
    for level in 1..=depth {
        let mut fields = vec![];
        // in front of the base: nothing, a member, or an unnamed gap (whole words, so that the base stays aligned)
        match t.below(4) {
            0 | 1 => {}
            2 => fields.push(Field::new(&format!("pre{level}"), Ty::n(word))),
            _ => fields.push(Field::new("_", Ty::Unk(w * (1 + t.below(3))))),
        }
        let mut b = Field::new(&format!("base{level}"), Ty::Named(format!("L{}", level - 1)));
        b.base = true;
        fields.push(b);
        for i in 0..t.below(3) {
            fields.push(Field::new(&format!("f{level}_{i}"), Ty::n(word)));
        }
        // its own block: the inherited functions word for word, sometimes followed by new ones
        let vft = if t.chance(1, 2) {
            let mut block = table.clone();
            for i in 0..t.below(2) {
                block.push(vf(format!("n{level}_{i}"), t.chance(1, 2), false));
            }
            table = block.clone();
            Some(Vft { size: None, funcs: block })
        } else {
            None
        };
        m.items.push(Item::Type(TypeDef {
            vis: true,
            name: format!("L{level}"),
            vft,
            fields,
            ..Default::default()
        }));
    }
    Case { prog: Prog { mods: vec![m] }, w }
}

impl Prop for SharedPointerChains {
    type Case = Case;
    crate::prog_shrink!();
    fn name(&self) -> String {
        "C01/shared-pointer-chains".into()
    }
    fn rule(&self) -> String {
        "hierarchies of three to five levels over a root that declares a vftable: every further level has the previous one as its only base, in front of it nothing, a word-sized member or an unnamed gap of 1-3 words, behind it 0-2 word-sized members, all placed implicitly; half of the levels restate the inherited table word for word (sometimes with a new function), the others inherit it. Same oracle as C01/offsets (rustc's offset_of for every named field against the end of the preceding statement). Every case is non-trivial when it has a level whose base is not its first statement or a level with its own block".into()
    }
    fn gen(&self, t: &mut Tape) -> Case {
        chain_case(t)
    }
    fn judge(&self, c: &Case) -> Outcome {
        let behind = c.prog.mods[0].types().any(|td| td.fields.first().map(|f| !f.base).unwrap_or(false) && td.fields.iter().any(|f| f.base));
        let o = judge_offsets(c);
        if behind {
            o.class("base-behind-member-or-gap")
        } else {
            o
        }
    }
    fn show(&self, c: &Case) -> Value {
        show_case(c)
    }
}

pub fn props() -> Vec<Box<dyn DynProp>> {
    vec![Box::new(Offsets), Box::new(SharedPointerChains)]
}

pub fn run(ctx: &mut Ctx) {
    let q = ctx.quick();
    ctx.run(&Offsets, &Params::new(if q { 4000 } else { 120_000 }, 200, 3000).shrink(120));
    ctx.run(&SharedPointerChains, &Params::new(if q { 400 } else { 20_000 }, 50, 3000).shrink(120));
}
