//! C01 — declared field addresses are the real offsets (rustc is the judge).

use serde_json::Value;

use super::l2common::*;
use crate::driver::*;
use crate::tape::Tape;

pub struct Offsets;

impl Prop for Offsets {
    type Case = Case;
    crate::prog_shrink!();
    fn name(&self) -> String {
        "C01/offsets".into()
    }
    fn rule(&self) -> String {
        "multi-type programs from the layout generator (explicit addresses, implicit placement, unknown<N> gaps, pointers, arrays, nested/extern/enum-typed fields, vftable pointer, base sub-objects, packed / aligned), generated for width 4 or 8 and accepted by pyxis. For every named emitted field a probe `const _: [(); EXPECTED] = [(); offset_of!(T, f)]` with EXPECTED = explicit address, else end of the preceding statement, is type-checked by rustc for that width (stable host for 8, nightly i686-pc-windows-msvc for 4); the model's field-type sizes are cross-checked with size_of probes. Non-trivial: >=1 struct with >=2 named fields and one of {explicit gap, nested by value, vftable pointer, packed misaligned field}; crates that do not compile for unrelated reasons are discarded (C13)".into()
    }
    fn gen(&self, t: &mut Tape) -> Case {
        gen_l2_case(t, false)
    }
    fn judge(&self, c: &Case) -> Outcome {
        let st = features(&c.prog, c.w);
        let mut run = match run_l2(&c.prog, c.w, Which::Offsets) {
            Ok(r) => r,
            Err(o) => return o,
        };
        // the same description at the other pointer width, when it is valid there too (pointer-free layouts mostly)
        let other = if c.w == 4 { 8 } else { 4 };
        let mut both = false;
        if run.out.probes.iter().all(|p| p.found.is_none()) && run.out.errors.is_empty() && crate::checks::c13::other_width_ok(c) {
            if let Ok(r2) = run_l2(&c.prog, other, Which::Offsets) {
                if r2.out.probes.iter().any(|p| p.found.is_some()) {
                    run = r2;
                } else if r2.out.errors.is_empty() {
                    both = true;
                }
            }
        }
        let bad: Vec<_> = run.out.probes.iter().filter(|p| p.found.is_some()).collect();
        if !bad.is_empty() {
            let mut d = String::new();
            for p in bad.iter().take(6) {
                d.push_str(&format!("{}: expected {}, rustc says {}\n", p.label, p.expected, p.found.map(|v| if v == u64::MAX { "?".to_string() } else { v.to_string() }).unwrap()));
            }
            let kind = if bad.iter().any(|p| p.label.starts_with("offset_of")) { "offset-mismatch" } else { "field-size-mismatch" };
            return Outcome::fail(kind, d);
        }
        if !run.out.errors.is_empty() {
            let mut codes: Vec<String> = run.out.errors.iter().map(|d| d.code.clone()).collect();
            codes.sort();
            codes.dedup();
            return Outcome::discard(&format!("crate-does-not-compile (C13's business): {}", codes.join("+")));
        }
        let nontrivial = st.structs >= 1 && st.named_fields >= 2 && (st.explicit_gap || st.nested_by_value || st.vptr || st.packed_misaligned);
        let mut o = Outcome::pass(nontrivial).class(&format!("width:{}", c.w));
        if both {
            o = o.class("both-widths");
        }
        for (k, v) in [("explicit_gap", st.explicit_gap), ("nested_by_value", st.nested_by_value), ("vptr", st.vptr), ("packed_misaligned", st.packed_misaligned), ("bases", st.bases), ("cross_module", st.cross_module)] {
            if v {
                o = o.class(k);
            }
        }
        o.class(&format!("probes:{}", match run.out.probes.len() { 0 => "0", 1..=9 => "1-9", 10..=49 => "10-49", _ => "50+" }))
    }
    fn show(&self, c: &Case) -> Value {
        show_case(c)
    }
}

pub fn props() -> Vec<Box<dyn DynProp>> {
    vec![Box::new(Offsets)]
}

pub fn run(ctx: &mut Ctx) {
    let q = ctx.quick();
    ctx.run(&Offsets, &Params::new(if q { 4000 } else { 120_000 }, 200, 3000).shrink(120));
}
