//! C11 — type names bind to the definition the scoping rules select.

use serde::{Deserialize, Serialize};
use serde_json::{json, Value};

use crate::driver::*;
use crate::model::*;
use crate::pipeline::*;
use crate::refmodel::*;
use crate::rsview;
use crate::tape::Tape;

#[derive(Clone, Serialize, Deserialize)]
pub struct Case {
    pub prog: Prog,
    pub w: u64,
    /// index of the observer module
    pub obs: usize,
    pub name: String,
    /// 0: modules are added in the given order (observer first); otherwise the seed of a shuffle
    #[serde(default)]
    pub ord: u8,
}

pub struct Scoping;

const MOD_SEGS: &[&str] = &["game", "world", "ui", "core", "net"];

/// Decoys of odd-numbered modules are named so that the contested name is a suffix of theirs (`Pre1Thing`).
fn decoy_name(i: usize, name: &str) -> String {
    if i % 2 == 1 {
        format!("Pre{i}{name}")
    } else {
        format!("Decoy{i}")
    }
}

pub fn gen_case(t: &mut Tape) -> Case {
    let w = if t.chance(1, 2) { 8 } else { 4 };
    let name = t.pick(&["Thing", "u32", "Other", "f64", "void"]).to_string();
    let nm = 2 + t.below(4) as usize;
    let mut prog = Prog::default();
    let mut paths: Vec<Vec<String>> = vec![];
    for i in 0..nm {
        loop {
            let depth = 1 + t.below(3) as usize;
            let mut p: Vec<String> = (0..depth - 1).map(|_| t.pick(MOD_SEGS).to_string()).collect();
            p.push(format!("m{i}"));
            if !paths.contains(&p) {
                paths.push(p);
                break;
            }
        }
    }
    let mut unique_size = 1u64;
    for (i, p) in paths.iter().enumerate() {
        let mut m = Mod {
            path: p.clone(),
            ..Default::default()
        };
        // does this module define the name? (the observer, module 0, decides below)
        if i > 0 && t.chance(2, 3) {
            unique_size += 1 + t.below(3);
            if t.chance(1, 3) {
                m.ext_types.push(ExtType {
                    name: name.clone(),
                    size: Num::d(unique_size as i128),
                    align: Num::d(1),
                });
            } else {
                m.items.push(Item::Type(TypeDef {
                    vis: true,
                    name: name.clone(),
                    packed: true,
                    fields: vec![Field::new("bytes", Ty::Unk(unique_size))],
                    ..Default::default()
                }));
            }
        }
        // a decoy with another name
        if t.chance(1, 3) {
            m.items.push(Item::Type(TypeDef {
                vis: true,
                name: decoy_name(i, &name),
                packed: true,
                fields: vec![Field::new("bytes", Ty::Unk(40 + i as u64))],
                ..Default::default()
            }));
        }
        prog.mods.push(m);
    }
    // observer = module 0
    let obs = 0;
    if t.chance(1, 3) {
        unique_size += 1 + t.below(3);
        let mut fields = vec![Field::new("bytes", Ty::Unk(unique_size))];
        if t.chance(1, 2) {
            // the local definition mentions the contested name itself (a list node): inside it the name
            // binds like anywhere else in the module. Its size stays apart from every other candidate's.
            fields = vec![
                Field::new("bytes", Ty::Unk(40 + unique_size)),
                Field::new("next", Ty::Named(name.clone()).mptr()),
                Field::new("all", Ty::Named(name.clone()).cptr().arr(2)),
            ];
        }
        prog.mods[obs].items.push(Item::Type(TypeDef {
            vis: true,
            name: name.clone(),
            packed: true,
            fields,
            ..Default::default()
        }));
    }
    // imports, interleaved in random order
    let n_uses = t.below(6) as usize;
    for _ in 0..n_uses {
        let j = 1 + t.below((nm - 1) as u64) as usize;
        let mut p = paths[j].clone();
        // now and then the observer imports its own definition by name (`use m0::Name;` inside m0), which
        // takes part in the last-one-wins rule like any other by-name import
        let has_local = prog.mods[obs].items.iter().any(|i| i.name() == name);
        if has_local && t.chance(1, 5) {
            let mut own = paths[obs].clone();
            own.push(name.clone());
            prog.mods[obs].uses.push(own);
            continue;
        }
        match t.below(5) {
            0 | 1 => {
                // by-name import (may dangle when that module does not define the name)
                p.push(name.clone());
            }
            2 | 3 => {}
            _ => {
                // by-name import of the decoy
                p.push(decoy_name(j, &name));
            }
        }
        prog.mods[obs].uses.push(p);
    }
    prog.mods[obs].items.push(Item::Type(TypeDef {
        vis: true,
        name: "Obs".into(),
        packed: true,
        fields: vec![Field::new("x", Ty::Named(name.clone())), Field::new("p", Ty::Named(name.clone()).cptr()), Field::new("arr", Ty::Named(name.clone()).arr(2))],
        ..Default::default()
    }));
    prog.mods[obs].impls.push(Impl {
        more: vec![],
        ty: "Obs".into(),
        funcs: vec![Func {
            more: vec![],
            sty: 0,
            vis: true,
            name: "m".into(),
            doc: vec![],
            args: vec![Arg::ConstSelf, Arg::Named("a".into(), Ty::Named(name.clone())), Arg::Named("b".into(), Ty::Named(name.clone()).mptr())],
            ret: Some(Ty::Named(name.clone())),
            addr: Some(Num::d(0x4000)),
            index: None,
            cc: None,
        }],
    });
    // the same name in the signatures of a virtual function (resolved by the vftable code, not the impl code)
    prog.mods[obs].items.push(Item::Type(TypeDef {
        vis: true,
        name: "ObsV".into(),
        vft: Some(Vft {
            size: None,
            funcs: vec![Func {
                more: vec![],
                sty: 0,
                vis: true,
                name: "vf".into(),
                doc: vec![],
                args: vec![Arg::ConstSelf, Arg::Named("a".into(), Ty::Named(name.clone())), Arg::Named("b".into(), Ty::Named(name.clone()).mptr())],
                ret: Some(Ty::Named(name.clone()).cptr()),
                addr: None,
                index: None,
                cc: None,
            }],
        }),
        ..Default::default()
    }));
    prog.mods[obs].ext_vals.push(ExtVal {
        sty: 0,
        vis: true,
        name: "gv".into(),
        ty: Ty::Named(name.clone()),
        addr: Some(Num::d(0x5000)),
        doc: vec![],
    });
    // the observer's statements in another order, its imports partly with a leading `::`
    if t.chance(1, 3) {
        prog.mods[obs].sty = t.below(128) as u8;
    }
    let ord = if t.chance(1, 2) { 0 } else { 1 + t.below(200) as u8 };
    Case { prog, w, obs, name, ord }
}

impl Prop for Scoping {
    type Case = Case;
    crate::prog_shrink!();
    fn name(&self) -> String {
        "C11/scoping".into()
    }
    fn rule(&self) -> String {
        "2-5 modules with paths of depth 1-3; the same short name (also a built-in's name) defined in several of them as packed types / extern types of pairwise distinct sizes; modules added in the given order (observer first) or shuffled; an observer module with an optional local definition (which may itself mention the name in pointer fields) and 0-5 interleaved `use path::Name` / `use path` imports (some dangling, some for a decoy whose name may end in the contested name, some for the observer's own definition). Oracle: reference binding (by-name import, last wins > built-in > same module > module imports in order) decides; the resolved size of `Obs` equals size(D)*3 + pointer width, and the emitted field, pointee, array element, parameter and return (impl function, virtual function slot and wrapper) and extern-value types are exactly the fully qualified path of D (syn); no binding => Err. Non-trivial: >= 2 candidate definitions reachable through different rules".into()
    }
    fn gen(&self, t: &mut Tape) -> Case {
        gen_case(t)
    }
    fn judge(&self, c: &Case) -> Outcome {
        let mut model = Model::new(&c.prog, c.w);
        let bound = model.bind(c.obs, &c.name);
        // candidates through different rules
        let m = &c.prog.mods[c.obs];
        let mut rules = 0;
        let by_name = m.uses.iter().filter(|u| u.last() == Some(&c.name) && {
            let (n, mp) = u.split_last().unwrap();
            model.mod_index(mp).map(|mi| c.prog.mods[mi].items.iter().any(|i| i.name() == n) || c.prog.mods[mi].ext_types.iter().any(|e| e.name == *n)).unwrap_or(false)
        }).count();
        if by_name > 0 {
            rules += 1;
        }
        if builtin_size(&c.name).is_some() {
            rules += 1;
        }
        if m.items.iter().any(|i| i.name() == c.name) {
            rules += 1;
        }
        let via_mod = m.uses.iter().filter(|u| model.mod_index(u).map(|mi| c.prog.mods[mi].items.iter().any(|i| i.name() == c.name) || c.prog.mods[mi].ext_types.iter().any(|e| e.name == c.name)).unwrap_or(false)).count();
        if via_mod > 0 {
            rules += 1;
        }
        let nontrivial = rules >= 2 || by_name >= 2 || via_mod >= 2;
        let mut classes = vec![format!("rules:{rules}"), format!("by_name_imports:{}", by_name.min(3)), format!("module_imports_with_name:{}", via_mod.min(3))];
        // the binding must not depend on the order in which the modules are added
        let mut order: Vec<usize> = (0..c.prog.mods.len()).collect();
        if c.ord != 0 {
            let mut mix = crate::tape::Mix(c.ord as u64);
            for i in (1..order.len()).rev() {
                let j = mix.below(i as u64 + 1) as usize;
                order.swap(i, j);
            }
            classes.push(format!("observer-added-at:{}", order.iter().position(|&x| x == c.obs).unwrap_or(0).min(3)));
        }
        let res = build_mem(&print_prog(&c.prog), c.w as usize, &MemOpts { order: Some(&order), ..Default::default() });
        let o = match (&bound, &res) {
            (_, Res::Panic(p)) => Outcome::fail("panic", format!("pyxis panicked: {p}")),
            (None, Res::Err(_)) => Outcome::pass(nontrivial),
            (None, Res::Ok(_)) => Outcome::fail("bound-nothing", "model: the name binds to nothing, pyxis succeeded".into()),
            (Some(b), Res::Err(e)) => {
                // a by-value `void` or a name bound to something that cannot be laid out
                if matches!(b, Bind::Builtin(n) if n == "void") {
                    Outcome::discard("void-by-value")
                } else {
                    Outcome::fail("spurious-err", format!("model binds to {}, pyxis: {e}", model.bind_path(b)))
                }
            }
            (Some(b), Res::Ok(built)) => {
                let want_path = model.bind_path(b);
                classes.push(format!("bound:{}", match b {
                    Bind::Builtin(_) => "builtin",
                    Bind::Item(mi, _) if *mi == c.obs => "local",
                    Bind::Item(..) => "imported-type",
                    Bind::Ext(..) => "imported-extern",
                }));
                let d = match model.ty_info(c.obs, &Ty::Named(c.name.clone())) {
                    TyRes::Ok { size, .. } => size,
                    _ => return Outcome::discard("model-cannot-size"),
                };
                let want_size = d * 3 + c.w;
                let obs_path = format!("{}::Obs", c.prog.mods[c.obs].path_str());
                let got = built.items.get(&obs_path).map(|i| i.size as u64);
                if got != Some(want_size) {
                    return Outcome::fail("wrong-size", format!("name binds to {want_path} (size {d}); Obs should have size {want_size}, pyxis resolved {got:?}")).with_classes(classes);
                }
                let want_ty = model.rust_ty(c.obs, &Ty::Named(c.name.clone())).unwrap();
                let src = &built.files[&c.prog.mods[c.obs].out_path()];
                match rsview::view(src) {
                    Err(e) => Outcome::fail("output-unparsable", e),
                    Ok(v) => {
                        let mut problems = vec![];
                        if let Some(s) = v.strukt("Obs") {
                            for (f, want) in [("x", want_ty.clone()), ("p", format!("*const{want_ty}")), ("arr", format!("[{want_ty};2]"))] {
                                match s.fields.iter().find(|x| x.name == f) {
                                    Some(fv) if fv.ty == want => {}
                                    Some(fv) => problems.push(format!("field {f}: `{}` instead of `{want}`", fv.ty)),
                                    None => {
                                        if !(f == "arr" && d == 0) {
                                            problems.push(format!("field {f} missing"))
                                        }
                                    }
                                }
                            }
                        } else {
                            problems.push("struct Obs missing".into());
                        }
                        // a local definition of the name that mentions the name in its own fields
                        if let Some(local) = c.prog.mods[c.obs].types().find(|t| t.name == c.name && t.fields.iter().any(|f| f.name == "next")) {
                            match v.strukt(&local.name) {
                                Some(s) => {
                                    for (f, want) in [("next", format!("*mut{want_ty}")), ("all", format!("[*const{want_ty};2]"))] {
                                        match s.fields.iter().find(|x| x.name == f) {
                                            Some(fv) if fv.ty == want => {}
                                            Some(fv) => problems.push(format!("field {}.{f} of the local definition: `{}` instead of `{want}`", local.name, fv.ty)),
                                            None => problems.push(format!("field {}.{f} missing", local.name)),
                                        }
                                    }
                                }
                                None => problems.push(format!("local struct {} missing", local.name)),
                            }
                        }
                        match v.method("Obs", "m") {
                            Some(mv) => {
                                if mv.args.first().map(|a| a.1.clone()) != Some(want_ty.clone()) {
                                    problems.push(format!("parameter a: {:?} instead of `{want_ty}`", mv.args.first()));
                                }
                                if mv.args.get(1).map(|a| a.1.clone()) != Some(format!("*mut{want_ty}")) {
                                    problems.push(format!("parameter b: {:?} instead of `*mut{want_ty}`", mv.args.get(1)));
                                }
                                if mv.ret.as_deref() != Some(want_ty.as_str()) {
                                    problems.push(format!("return type {:?} instead of `{want_ty}`", mv.ret));
                                }
                            }
                            None => problems.push("method m missing".into()),
                        }
                        // virtual function: the slot's fn-pointer type and the wrapper
                        match v.strukt("ObsVVftable").and_then(|s| s.fields.iter().find(|f| f.name == "vf")).and_then(|f| f.fn_sig.clone()) {
                            Some((args, ret)) => {
                                if args.get(1) != Some(&want_ty) || args.get(2) != Some(&format!("*mut{want_ty}")) || ret.as_deref() != Some(format!("*const{want_ty}").as_str()) {
                                    problems.push(format!("ObsVVftable.vf: parameters {:?} -> {:?}, expected (this, {want_ty}, *mut{want_ty}) -> *const{want_ty}", args, ret));
                                }
                            }
                            None => problems.push("ObsVVftable.vf missing".into()),
                        }
                        match v.method("ObsV", "vf") {
                            Some(mv) => {
                                if mv.args.first().map(|a| a.1.clone()) != Some(want_ty.clone()) || mv.args.get(1).map(|a| a.1.clone()) != Some(format!("*mut{want_ty}")) || mv.ret.as_deref() != Some(format!("*const{want_ty}").as_str()) {
                                    problems.push(format!("ObsV::vf: {:?} -> {:?}", mv.args, mv.ret));
                                }
                            }
                            None => problems.push("method ObsV::vf missing".into()),
                        }
                        match v.free_fns.iter().find(|f| f.name == "get_gv") {
                            Some(fv) if fv.ret.as_deref() == Some(format!("&'staticmut{want_ty}").as_str()) => {}
                            other => problems.push(format!("get_gv: {:?}", other.map(|f| f.ret.clone()))),
                        }
                        if problems.is_empty() {
                            Outcome::pass(nontrivial)
                        } else {
                            Outcome::fail("wrong-reference", format!("name should bind to {want_path}: {}", problems.join("; ")))
                        }
                    }
                }
            }
        };
        o.with_classes(classes)
    }
    fn show(&self, c: &Case) -> Value {
        json!({"width": c.w, "name": c.name, "module_order_seed": c.ord, "pyxis": prog_text(&c.prog)})
    }
}

pub fn props() -> Vec<Box<dyn DynProp>> {
    vec![Box::new(Scoping)]
}

pub fn run(ctx: &mut Ctx) {
    let q = ctx.quick();
    ctx.run(&Scoping, &Params::new(if q { 30_000 } else { 1_000_000 }, 40, 400));
}
