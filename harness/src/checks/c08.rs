//! C08 — enum discriminants, representation and default variant are as declared.

use serde::{Deserialize, Serialize};
use serde_json::{json, Value};

use super::l3common::{bucket, run_l3, Case as L3Case};
use crate::driver::*;
use crate::l2::*;
use crate::model::*;
use crate::pipeline::*;
use crate::refmodel::*;
use crate::tape::Tape;

fn range_of(base: &str) -> (i128, i128) {
    let bits = builtin_size(base).unwrap_or(4) * 8;
    if bits >= 128 {
        // more than the grammar's isize can write anyway
        return if base.starts_with('i') { (i128::MIN, i128::MAX) } else { (0, i128::MAX) };
    }
    if base.starts_with('i') {
        (-(1i128 << (bits - 1)), (1i128 << (bits - 1)) - 1)
    } else {
        (0, (1i128 << bits) - 1)
    }
}

/// A valid enum over `base`, values within [lo, hi] ∩ what the grammar can write (isize).
pub fn gen_enum(t: &mut Tape, name: &str, w: u64) -> EnumDef {
    let base = *t.pick(INT_TYPES);
    let (mut lo, mut hi) = range_of(base);
    lo = lo.max(i64::MIN as i128);
    hi = hi.min(i64::MAX as i128);
    let _ = w; // since the F05 fix the full range is usable on 32-bit targets too
    let n = 1 + t.below(32);
    let mut used = std::collections::BTreeSet::new();
    let mut variants = vec![];
    let mut next: i128 = 0;
    for k in 0..n {
        let mut value = None;
        let mut v = next;
        let explicit = t.chance(1, 3) || used.contains(&v) || v > hi || v < lo;
        if explicit {
            let mut found = false;
            for _ in 0..12 {
                let cand: i128 = match t.below(8) {
                    0 => lo,
                    1 => hi,
                    2 => hi - 1 - t.below(40) as i128,
                    3 => lo + t.below(40) as i128,
                    4 if lo < 0 => -(1 + t.small(200) as i128),
                    5 => (1i128 << t.below(63)).min(hi),
                    _ => t.small(1000) as i128,
                }
                .clamp(lo, hi);
                if !used.contains(&cand) {
                    v = cand;
                    found = true;
                    break;
                }
            }
            if !found {
                break;
            }
            value = Some(Num { v, sp: t.below(6) as u8 });
        }
        if used.contains(&v) || v > hi || v < lo {
            break;
        }
        used.insert(v);
        variants.push(Variant {
            sty: 0,
            name: format!("V{k}"),
            value,
            default: false,
            doc: vec![],
        });
        next = v + 1;
    }
    if variants.is_empty() {
        variants.push(Variant {
            sty: 0,
            name: "V0".into(),
            value: None,
            default: false,
            doc: vec![],
        });
    }
    let defaultable = t.chance(1, 2);
    if defaultable {
        let k = t.below(variants.len() as u64) as usize;
        variants[k].default = true;
    }
    // doc comments before, after and around `#[default]` and the item attributes
    let mut edoc = vec![];
    if t.chance(1, 4) {
        for v in variants.iter_mut() {
            if t.chance(1, 3) {
                v.doc = (0..1 + t.below(2)).map(|i| format!(" case doc {i}")).collect();
                v.sty = (t.below(4) as u8) | if t.chance(1, 2) { 0x40 } else { 0 };
            }
        }
        if t.chance(1, 2) {
            edoc = (0..1 + t.below(3)).map(|i| format!(" enum doc {i}")).collect();
        }
    }
    let esty = (t.below(4) as u8) | if t.chance(1, 3) { 0x80 } else { 0 } | if t.chance(1, 3) { 0x40 } else { 0 };
    let copyable = t.chance(1, 2);
    // now and then the enum is a singleton too (only with copyable: finding F32): one more item-level
    // attribute, anywhere among the markers. Each enum gets a page of its own (the L3 driver maps it).
    let k: i128 = name.trim_start_matches(|c: char| !c.is_ascii_digit()).parse().unwrap_or(0);
    let singleton = if copyable && t.chance(1, 5) { Some(Num::d(0x7654_0000 + (k + 1) * 0x1000)) } else { None };
    EnumDef {
        sty: esty,
        vis: true,
        name: name.to_string(),
        doc: edoc,
        base: base.to_string(),
        variants,
        singleton,
        copyable,
        cloneable: t.chance(1, 3),
        defaultable,
    }
}

fn enum_prog(t: &mut Tape, w: u64, n: usize) -> Prog {
    let mut m = Mod {
        path: vec!["e".into()],
        ..Default::default()
    };
    for k in 0..n {
        m.items.push(Item::Enum(gen_enum(t, &format!("E{k}"), w)));
    }
    Prog { mods: vec![m] }
}

fn values_of(e: &EnumDef) -> Vec<i128> {
    let mut next = 0;
    e.variants
        .iter()
        .map(|v| {
            let x = v.value.as_ref().map(|n| n.v).unwrap_or(next);
            next = x + 1;
            x
        })
        .collect()
}

fn nontrivial_enum(e: &EnumDef) -> bool {
    let (lo, hi) = range_of(&e.base);
    let vals = values_of(e);
    let explicit_then_implicit = e.variants.windows(2).any(|w| w[0].value.is_some() && w[1].value.is_none());
    let boundary = vals.iter().any(|v| *v == lo && lo != 0 || *v == hi || *v == i64::MAX as i128);
    let default_not_first = e.variants.iter().position(|v| v.default).map(|k| k > 0).unwrap_or(false);
    (e.variants.len() >= 3 && explicit_then_implicit) || boundary || default_not_first
}

// ------------------------------------------------------------ executed (host)

/// What pyxis itself records for an enum (and uses when the enum is a member of another type) must be
/// the size and alignment of its base type.
fn registry_agrees(prog: &Prog, built: &Built) -> Result<(), String> {
    for m in &prog.mods {
        for e in m.enums() {
            let Some(s) = builtin_size(&e.base) else { continue };
            let path = format!("{}::{}", m.path_str(), e.name);
            match built.items.get(&path) {
                Some(i) if i.size as u64 == s && i.align as u64 == s.max(1) => {}
                Some(i) => return Err(format!("enum {path} over {}: pyxis records size {} / alignment {}, the base type has {s} / {s}", e.base, i.size, i.align)),
                None => return Err(format!("enum {path} is not in the registry")),
            }
        }
    }
    Ok(())
}

pub struct Values;
impl Prop for Values {
    type Case = L3Case;
    crate::prog_shrink!();
    fn name(&self) -> String {
        "C08/values".into()
    }
    fn rule(&self) -> String {
        "20 enums per crate over all ten integer bases, 1-32 variants, explicit values (negative where signed, any spelling, boundary values of the base within what the grammar's isize can write) mixed with implicit runs, default marker anywhere or absent, copyable/cloneable/defaultable subsets in any order, sometimes with a singleton attribute among them; executed on the host: the driver prints `Variant as <int>` for every variant, size_of, align_of and Default::default(). Oracle: written value, else predecessor + 1 (first 0); size and alignment of the base type, also as pyxis records them for use in embedding types; default = the marked variant. Non-trivial enum: >=3 variants with an explicit value followed by an implicit one, or a boundary value, or a default that is not the first variant".into()
    }
    fn gen(&self, t: &mut Tape) -> L3Case {
        L3Case {
            prog: enum_prog(t, 8, 20),
            seed: 0,
        }
    }
    fn judge(&self, c: &L3Case) -> Outcome {
        if let Res::Ok(b) = build_prog(&c.prog, 8) {
            if let Err(e) = registry_agrees(&c.prog, &b) {
                return Outcome::fail("recorded-layout", e);
            }
        }
        let r = match run_l3(c, &["enum"]) {
            Ok(r) => r,
            Err(o) => return o,
        };
        if !r.failures.is_empty() {
            return Outcome::fail("wrong-enum", r.failures.join("\n"));
        }
        let nt = c.prog.mods[0].enums().filter(|e| nontrivial_enum(e)).count();
        Outcome::pass(nt >= 1).class(&format!("nontrivial-enums:{}", bucket(nt))).class(&format!("enums:{}", bucket(r.checked)))
    }
    fn show(&self, c: &L3Case) -> Value {
        json!({"width": 8, "pyxis": prog_text(&c.prog)})
    }
}

// ------------------------------------------------------------ 32-bit target (L2)

#[derive(Clone, Serialize, Deserialize)]
pub struct W4Case {
    pub prog: Prog,
}
pub struct Width4;
impl Prop for Width4 {
    type Case = W4Case;
    crate::prog_shrink!();
    fn name(&self) -> String {
        "C08/width4".into()
    }
    fn rule(&self) -> String {
        "the same enum generator at width 4 (full value range: regression for fixed finding F05); the emitted definitions are type-checked for i686-pc-windows-msvc with const probes `(E::V as i128 == value) as usize == 1` for every variant and size_of/align_of == base size. Non-trivial as in C08/values".into()
    }
    fn gen(&self, t: &mut Tape) -> W4Case {
        W4Case { prog: enum_prog(t, 4, 20) }
    }
    fn judge(&self, c: &W4Case) -> Outcome {
        if let Err(e) = l2_available() {
            return Outcome::discard(&format!("machinery: {e}"));
        }
        let built = match build_prog(&c.prog, 4) {
            Res::Ok(b) => b,
            Res::Err(e) => return Outcome::fail("valid-enum-rejected", e),
            Res::Panic(p) => return Outcome::fail("panic", p),
        };
        if let Err(e) = registry_agrees(&c.prog, &built) {
            return Outcome::fail("recorded-layout", e);
        }
        let mut app = Appendix::new();
        let file = c.prog.mods[0].out_path();
        for e in c.prog.mods[0].enums() {
            for (v, val) in e.variants.iter().zip(values_of(e)) {
                app.probe(&file, &format!("{}::{} == {val}", e.name, v.name), &format!("({}::{} as i128 == {val}i128) as usize", e.name, v.name), 1);
            }
            let s = builtin_size(&e.base).unwrap();
            app.probe(&file, &format!("size_of {}", e.name), &format!("::core::mem::size_of::<{}>()", e.name), s);
            app.probe(&file, &format!("align_of {}", e.name), &format!("::core::mem::align_of::<{}>()", e.name), s);
        }
        let out = rustc_check(assemble(&built.files, 4, app, "", false), 4);
        if let Some(e) = &out.machinery_error {
            return Outcome::discard(&format!("machinery: {}", e.chars().take(80).collect::<String>()));
        }
        let bad: Vec<_> = out.probes.iter().filter(|p| p.found.is_some()).collect();
        if !bad.is_empty() {
            let d: Vec<String> = bad.iter().take(6).map(|p| format!("{}: probe failed (rustc: {:?})", p.label, p.found)).collect();
            return Outcome::fail("wrong-enum", d.join("\n"));
        }
        if !out.errors.is_empty() {
            return Outcome::fail("does-not-compile", super::l2common::diag_summary(&out.errors));
        }
        let nt = c.prog.mods[0].enums().filter(|e| nontrivial_enum(e)).count();
        Outcome::pass(nt >= 1).class(&format!("nontrivial-enums:{}", bucket(nt)))
    }
    fn show(&self, c: &W4Case) -> Value {
        json!({"width": 4, "pyxis": prog_text(&c.prog)})
    }
}

// ------------------------------------------------------------ rejections (L0)

#[derive(Clone, Serialize, Deserialize)]
pub struct RejCase {
    pub e: EnumDef,
    pub w: u64,
    pub what: String,
    /// judge even the shape of known finding F04 (used by its replay file)
    #[serde(default)]
    pub strict: bool,
}
pub struct Rejections;
impl Prop for Rejections {
    type Case = RejCase;
    fn name(&self) -> String {
        "C08/rejections".into()
    }
    fn rule(&self) -> String {
        "a valid enum with one defect injected: an explicit value above / below the base's range (also written with a u64/usize suffix and the top bit of the 64-bit pattern set), a negative value for an unsigned base, an implicit value that runs past the maximum (max followed by an implicit variant), a #[default] marker without defaultable, defaultable without a marker, two markers; plus the unmodified enum as control. Oracle: Err for every defect, Ok for the control".into()
    }
    fn gen(&self, t: &mut Tape) -> RejCase {
        let w = if t.chance(1, 2) { 8 } else { 4 };
        let mut e = gen_enum(t, "E", w);
        let (lo, hi) = range_of(&e.base);
        let writable = |v: i128| v > i64::MIN as i128 + 400 && v < i64::MAX as i128 - 400;
        let k = t.below(e.variants.len() as u64) as usize;
        let mut what = "control".to_string();
        match t.below(8) {
            0 if writable(hi.saturating_add(1)) => {
                e.variants[k].value = Some(Num::d(hi + 1 + t.small(300) as i128));
                what = "value above the range".into();
            }
            1 if writable(lo.saturating_sub(1)) && lo < 0 => {
                e.variants[k].value = Some(Num::d(lo - 1 - t.small(300) as i128));
                what = "value below the range".into();
            }
            2 if lo == 0 => {
                e.variants[k].value = Some(Num::d(-1 - t.small(300) as i128));
                what = "negative value for an unsigned base".into();
            }
            3 if writable(hi) => {
                // max followed by an implicit variant
                e.variants.push(Variant {
                    sty: 0,
                    name: "Vmax".into(),
                    value: Some(Num::d(hi)),
                    default: false,
                    doc: vec![],
                });
                e.variants.push(Variant {
                    sty: 0,
                    name: "Vover".into(),
                    value: None,
                    default: false,
                    doc: vec![],
                });
                // remove an earlier use of hi so that only the overflow is wrong
                let vals = values_of(&e);
                if vals[..vals.len() - 2].contains(&hi) {
                    what = "control".into();
                    e.variants.truncate(e.variants.len() - 2);
                } else {
                    what = "implicit value past the maximum".into();
                }
            }
            4 => {
                if !e.defaultable {
                    e.variants[k].default = true;
                    what = "default marker without defaultable".into();
                }
            }
            5 => {
                if e.defaultable {
                    for v in e.variants.iter_mut() {
                        v.default = false;
                    }
                    what = "defaultable without a marker".into();
                }
            }
            7 if hi < (1i128 << 63) => {
                // a literal with a type suffix whose 64-bit pattern has the top bit set: far above the range of
                // every base type but u64/u128/i128, whatever the suffix says
                let v = (1i128 << 63) + t.below(1 << 20) as i128 * 0x1_0000_0001 % (1i128 << 63);
                e.variants[k].value = Some(Num { v, sp: t.below(6) as u8 + 6 * (1 + t.below(2) as u8) });
                what = "suffixed value above the range".into();
            }
            6 => {
                if e.defaultable && e.variants.len() >= 2 {
                    for v in e.variants.iter_mut().take(2) {
                        v.default = true;
                    }
                    if e.variants.iter().filter(|v| v.default).count() >= 2 {
                        what = "two default markers".into();
                    }
                }
            }
            _ => {}
        }
        RejCase { e, w, what, strict: false }
    }
    fn judge(&self, c: &RejCase) -> Outcome {
        let prog = Prog {
            mods: vec![Mod {
                path: vec!["e".into()],
                items: vec![Item::Enum(c.e.clone())],
                ..Default::default()
            }],
        };
        if c.what == "negative value for an unsigned base" && !c.strict {
            // known finding F04: accepted as two's complement, pinned by the repository's own test can_resolve_enum
            return Outcome::discard("excluded: known finding F04 (negative value for an unsigned base)");
        }
        let res = build_prog(&prog, c.w as usize);
        match (&res, c.what.as_str()) {
            (Res::Panic(p), _) => Outcome::fail("panic", p.clone()),
            (Res::Ok(_), "control") => Outcome::pass(true).class("control"),
            (Res::Err(e), "control") => Outcome::fail("valid-enum-rejected", e.clone()),
            (Res::Err(_), w) => Outcome::pass(true).class(&format!("defect:{w}")),
            (Res::Ok(b), w) => Outcome::fail(&format!("accepted:{w}"), format!("{w}: accepted; emitted:\n{}", b.files.values().next().cloned().unwrap_or_default().lines().filter(|l| l.contains(" = ") || l.contains("enum")).take(40).collect::<Vec<_>>().join("\n"))),
        }
    }
    fn show(&self, c: &RejCase) -> Value {
        let mut s = String::new();
        print_enum(&mut s, &c.e);
        json!({"width": c.w, "defect": c.what, "pyxis": s})
    }
}

pub fn props() -> Vec<Box<dyn DynProp>> {
    vec![Box::new(Rejections), Box::new(Width4), Box::new(Values)]
}

pub fn run(ctx: &mut Ctx) {
    let q = ctx.quick();
    ctx.run(&Rejections, &Params::new(if q { 20_000 } else { 500_000 }, 20, 200));
    ctx.run(&Width4, &Params::new(if q { 600 } else { 20_000 }, 300, 3000).shrink(80));
    ctx.run(&Values, &Params::new(if q { 600 } else { 20_000 }, 300, 3000).shrink(60));
}
