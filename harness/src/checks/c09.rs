//! C09 — the output is a deterministic function of the input set.

use serde::{Deserialize, Serialize};
use serde_json::{json, Value};

use crate::driver::*;
use crate::genprog::*;
use crate::model::*;
use crate::pipeline::*;
use crate::tape::{Mix, Tape};

#[derive(Clone, Serialize, Deserialize)]
pub struct Case {
    pub prog: Prog,
    pub w: u64,
    pub seed: u64,
}

fn same(a: &Res, b: &Res) -> bool {
    match (a, b) {
        (Res::Ok(x), Res::Ok(y)) => x.files == y.files,
        (Res::Err(_), Res::Err(_)) => true,
        (Res::Panic(_), Res::Panic(_)) => true,
        _ => false,
    }
}

fn describe_diff(a: &Res, b: &Res) -> String {
    match (a, b) {
        (Res::Ok(x), Res::Ok(y)) => {
            let mut s = String::new();
            for (k, v) in &x.files {
                match y.files.get(k) {
                    None => s.push_str(&format!("file {k} only in the first run\n")),
                    Some(v2) if v2 != v => {
                        let (l1, l2): (Vec<&str>, Vec<&str>) = (v.lines().collect(), v2.lines().collect());
                        let i = l1.iter().zip(l2.iter()).position(|(a, b)| a != b).unwrap_or(l1.len().min(l2.len()));
                        s.push_str(&format!("file {k} differs from line {}:\n  first : {}\n  second: {}\n", i + 1, l1.get(i).unwrap_or(&"<eof>"), l2.get(i).unwrap_or(&"<eof>")));
                    }
                    _ => {}
                }
            }
            for k in y.files.keys() {
                if !x.files.contains_key(k) {
                    s.push_str(&format!("file {k} only in the second run\n"));
                }
            }
            s
        }
        _ => format!("first: {}\nsecond: {}", a.brief(), b.brief()),
    }
}

pub fn user_paths(p: &Prog) -> Vec<String> {
    let mut v = vec![];
    for m in &p.mods {
        for it in &m.items {
            v.push(format!("{}::{}", m.path_str(), it.name()));
        }
    }
    v
}

fn permutations(n: usize) -> Vec<Vec<usize>> {
    fn go(cur: &mut Vec<usize>, used: &mut Vec<bool>, n: usize, out: &mut Vec<Vec<usize>>) {
        if cur.len() == n {
            out.push(cur.clone());
            return;
        }
        for i in 0..n {
            if !used[i] {
                used[i] = true;
                cur.push(i);
                go(cur, used, n, out);
                cur.pop();
                used[i] = false;
            }
        }
    }
    let mut out = vec![];
    go(&mut vec![], &mut vec![false; n], n, &mut out);
    out
}

pub struct Schedules {
    pub exhaustive_upto: usize,
    pub sampled: usize,
}

impl Schedules {
    /// Returns Err((kind, detail)) on the first disagreement, else (builds run, max rounds, classes)
    fn explore(&self, c: &Case) -> Result<(u64, u64, Vec<String>), (String, String)> {
        let files = print_prog(&c.prog);
        let w = c.w as usize;
        let base = build_mem(&files, w, &MemOpts::default());
        let mut builds = 1u64;
        let mut max_rounds = 0u64;
        let mut classes = vec![];
        let mut check = |label: String, r: &Res| -> Result<(), (String, String)> {
            if same(&base, r) {
                Ok(())
            } else {
                Err((
                    "nondeterministic".to_string(),
                    format!("baseline (hash order, modules in given order) vs {label}:\n{}", describe_diff(&base, r)),
                ))
            }
        };
        // repeated builds in one process (fresh hash keys each time)
        for k in 0..3 {
            let r = build_mem(&files, w, &MemOpts::default());
            builds += 1;
            check(format!("repeat #{k}"), &r)?;
        }
        // fixed schedules
        let paths = user_paths(&c.prog);
        let mut scheds = vec![Sched::Sorted, Sched::Reverse];
        for k in 0..6 {
            scheds.push(Sched::Seeded(c.seed.wrapping_add(k)));
        }
        if paths.len() <= self.exhaustive_upto {
            classes.push(format!("priority-exhaustive-{}", paths.len()));
            for perm in permutations(paths.len()) {
                scheds.push(Sched::Priority(perm.iter().map(|&i| paths[i].clone()).collect()));
            }
        } else {
            classes.push("priority-sampled".to_string());
            let mut mix = Mix(c.seed ^ 0xA5A5);
            for _ in 0..self.sampled {
                let mut p = paths.clone();
                for i in (1..p.len()).rev() {
                    let j = mix.below(i as u64 + 1) as usize;
                    p.swap(i, j);
                }
                scheds.push(Sched::Priority(p));
            }
        }
        for s in &scheds {
            let r = build_mem(&files, w, &MemOpts { sched: Some(s), ..Default::default() });
            builds += 1;
            let calls = SCHED_CALLS.with(|c| c.get());
            max_rounds = max_rounds.max(calls / 2);
            check(format!("resolution schedule {s:?}"), &r)?;
        }
        // module addition orders
        let nm = files.len();
        let orders: Vec<Vec<usize>> = if nm <= 4 {
            permutations(nm)
        } else {
            let mut mix = Mix(c.seed ^ 0x5A5A);
            (0..24)
                .map(|_| {
                    let mut p: Vec<usize> = (0..nm).collect();
                    for i in (1..p.len()).rev() {
                        let j = mix.below(i as u64 + 1) as usize;
                        p.swap(i, j);
                    }
                    p
                })
                .collect()
        };
        for o in &orders {
            let r = build_mem(&files, w, &MemOpts { order: Some(o), sched: Some(&Sched::Seeded(c.seed ^ 77)), ..Default::default() });
            builds += 1;
            check(format!("module order {o:?} + seeded schedule"), &r)?;
        }
        if !base.is_ok() {
            classes.push("baseline-err".into());
        }
        if ambiguous_names(&c.prog) {
            classes.push("ambiguous-short-name".into());
        }
        Ok((builds, max_rounds, classes))
    }
}

/// some short name is defined (as item or extern type) in more than one module
fn ambiguous_names(p: &Prog) -> bool {
    let mut seen = std::collections::BTreeMap::<&str, usize>::new();
    for m in &p.mods {
        for n in m.items.iter().map(|i| i.name()).chain(m.ext_types.iter().map(|e| e.name.as_str())) {
            *seen.entry(n).or_default() += 1;
        }
    }
    seen.values().any(|&k| k > 1)
}

/// Turn an accepted program into a (probably) rejected one: determinism must hold for failures too.
fn perturb(t: &mut Tape, prog: &mut Prog) {
    let mut types: Vec<(usize, usize)> = vec![];
    for (mi, m) in prog.mods.iter().enumerate() {
        for (ii, it) in m.items.iter().enumerate() {
            if matches!(it, Item::Type(_)) {
                types.push((mi, ii));
            }
        }
    }
    if types.is_empty() {
        return;
    }
    let (mi, ii) = types[t.below(types.len() as u64) as usize];
    let self_name = prog.mods[mi].items[ii].name().to_string();
    let Item::Type(td) = &mut prog.mods[mi].items[ii] else { return };
    match t.below(4) {
        0 => td.fields.push(Field::new("zz_missing", Ty::n("NoSuchType"))),
        1 => td.fields.push(Field::new("zz_missing_ptr", Ty::n("NoSuchType").cptr())),
        2 => td.fields.push(Field::new("zz_self", Ty::Named(self_name))),
        _ => {
            // misplace a field
            if let Some(f) = td.fields.last_mut() {
                f.addr = Some(Num::d(1));
            }
        }
    }
}

/// Types that point to generated `<T>Vftable` items (through a by-name import, a whole-module import
/// or from the owner's own module): those items only come into being in the middle of resolution.
fn add_vftable_refs(t: &mut Tape, prog: &mut Prog) {
    let owners: Vec<(usize, String)> = prog
        .mods
        .iter()
        .enumerate()
        .flat_map(|(mi, m)| m.types().filter(|t| t.vft.is_some()).map(move |t| (mi, t.name.clone())))
        .collect();
    if owners.is_empty() {
        return;
    }
    let n = 1 + t.below(2);
    for k in 0..n {
        let (m1, owner) = owners[t.below(owners.len() as u64) as usize].clone();
        let m2 = t.below(prog.mods.len() as u64) as usize;
        let vt = format!("{owner}Vftable");
        if m2 != m1 {
            let mut p = prog.mods[m1].path.clone();
            if t.chance(2, 3) {
                p.push(vt.clone());
            }
            if !prog.mods[m2].uses.contains(&p) {
                prog.mods[m2].uses.push(p);
            }
        }
        let name = format!("Hook{k}");
        if prog.mods[m2].items.iter().any(|i| i.name() == name) {
            continue;
        }
        let item = Item::Type(TypeDef {
            vis: true,
            name,
            packed: true,
            fields: vec![Field::new("vt", Ty::Named(vt.clone()).cptr()), Field::new("vts", Ty::Named(vt).mptr().arr(2))],
            ..Default::default()
        });
        // before or after the other definitions of the module
        if t.chance(1, 2) {
            prog.mods[m2].items.insert(0, item);
        } else {
            prog.mods[m2].items.push(item);
        }
    }
}

/// Two or three further modules import one type by name and each carry an impl block for it (ignored
/// today; whatever is done with them must not depend on the order the modules are walked in).
fn add_foreign_impls(t: &mut Tape, prog: &mut Prog) {
    let owners: Vec<(usize, String)> = prog.mods.iter().enumerate().flat_map(|(mi, m)| m.types().filter(|t| t.vis).map(move |t| (mi, t.name.clone()))).collect();
    if owners.is_empty() {
        return;
    }
    let (mi, tn) = owners[t.below(owners.len() as u64) as usize].clone();
    let n = 2 + t.below(2);
    for k in 0..n {
        let mut up = prog.mods[mi].path.clone();
        up.push(tn.clone());
        let path = vec![format!("zimp{k}")];
        if prog.mods.iter().any(|m| m.path == path) {
            continue;
        }
        prog.mods.push(Mod {
            path,
            uses: vec![up],
            impls: vec![Impl {
                more: vec![],
                ty: tn.clone(),
                funcs: vec![Func {
                    more: vec![],
                    sty: 0,
                    vis: true,
                    name: format!("zext{k}"),
                    doc: vec![],
                    args: vec![Arg::ConstSelf],
                    ret: None,
                    addr: Some(Num::d(0x6100 + 16 * k as i128)),
                    index: None,
                    cc: None,
                }],
            }],
            ..Default::default()
        });
    }
}

/// A module nested below another one and called like one of that module's items (gfx/Mesh.pyxis next to
/// `type Mesh` in gfx.pyxis); it only uses built-in types.
fn add_module_named_like_item(t: &mut Tape, prog: &mut Prog) {
    let sites: Vec<(usize, String)> = prog.mods.iter().enumerate().flat_map(|(mi, m)| m.items.iter().map(move |i| (mi, i.name().to_string()))).collect();
    if sites.is_empty() {
        return;
    }
    let (mi, name) = sites[t.below(sites.len() as u64) as usize].clone();
    let mut path = prog.mods[mi].path.clone();
    path.push(name);
    if prog.mods.iter().any(|m| m.path == path) {
        return;
    }
    prog.mods.push(Mod {
        path,
        items: vec![Item::Type(TypeDef {
            vis: true,
            name: "Zleaf".into(),
            packed: true,
            fields: vec![Field::new("a", Ty::n("u32")), Field::new("b", Ty::n("u8").arr(3))],
            ..Default::default()
        })],
        ..Default::default()
    });
}

/// Several backend blocks of one module whose names differ only in case (`rust`, `Rust`, `RUST`): only the
/// blocks called `rust` belong to the Rust output, and whatever is done with the others is done the same way in every build.
fn add_backend_spellings(t: &mut Tape, prog: &mut Prog) {
    if prog.mods.is_empty() {
        return;
    }
    let mi = t.below(prog.mods.len() as u64) as usize;
    let n = 2 + t.below(3);
    let kind = t.below(3); // all prologues, all epilogues, mixed
    for i in 0..n {
        let name = t.pick(&["rust", "Rust", "RUST", "rUst", "rust_"]).to_string();
        let text = format!("pub const PV_SPELLING_{}_{}: u32 = {};", mi, i, i);
        let pro = match kind {
            0 => true,
            1 => false,
            _ => t.chance(1, 2),
        };
        prog.mods[mi].backends.push(BackendBlk {
            name,
            form: if pro { 1 } else { 2 },
            prologue: if pro { Some(text.clone()) } else { None },
            epilogue: if pro { None } else { Some(text) },
        });
    }
}

fn hazard_cfg(t: &mut Tape) -> GenCfg {
    let w = if t.chance(1, 2) { 8 } else { 4 };
    let mut cfg = GenCfg::rich(w);
    // smaller programs so that schedules can be enumerated
    cfg.max_items = 3 + t.below(8);
    cfg.max_fields = 4;
    cfg.docs = false;
    cfg.backends = t.chance(1, 4);
    cfg
}

impl Prop for Schedules {
    type Case = Case;
    crate::prog_shrink!();
    fn name(&self) -> String {
        "C09/schedules".into()
    }
    fn rule(&self) -> String {
        format!("multi-module programs from the rich generator, one in five from the C11 generator (one short name defined in several modules, competing by-name and whole-module imports, an extern value of that name) (by-value chains, bases with vftables, types pointing to generated <T>Vftable items through by-name and whole-module imports, several modules that import one type by name and carry an impl block for it, a module nested below another and named like one of its items, backend blocks of one module named rust/Rust/RUST/… side by side, cross-module imports, enum/extern-typed fields, impl/vftable signatures over user types). Every program is built: 4x with hash order, under Sorted/Reverse/6 set-dependent seeded schedules, under every priority permutation of its user items when it has <= {} of them ({} sampled permutations otherwise), and under every permutation of add_module order (<= 4 modules; 24 sampled beyond). Oracle: all runs agree on Ok/Err and on the bytes of every output file. Non-trivial: >= 3 user items and >= 2 resolution rounds under some schedule. References to generated <T>Vftable names from signatures are not generated (known finding F06, demonstrated by its own replay)", self.exhaustive_upto, self.sampled)
    }
    fn gen(&self, t: &mut Tape) -> Case {
        // one case in five: a small module set in which one short name is defined in several
        // modules and reached through competing imports (the C11 generator), so that a binding
        // made while the registry is only partly filled shows under a module-order permutation
        if t.chance(1, 5) {
            let c = super::c11::gen_case(t);
            return Case { prog: c.prog, w: c.w, seed: t.u64() };
        }
        let cfg = hazard_cfg(t);
        let w = cfg.w;
        let (mut prog, _, _) = gen_prog(t, cfg);
        if t.chance(1, 6) {
            perturb(t, &mut prog);
        }
        if t.chance(1, 4) {
            add_vftable_refs(t, &mut prog);
        }
        if t.chance(1, 5) {
            add_foreign_impls(t, &mut prog);
        }
        if t.chance(1, 6) {
            add_module_named_like_item(t, &mut prog);
        }
        if t.chance(1, 5) {
            add_backend_spellings(t, &mut prog);
        }
        Case { prog, w, seed: t.u64() }
    }
    fn judge(&self, c: &Case) -> Outcome {
        match self.explore(c) {
            Err((k, d)) => Outcome::fail(&k, d),
            Ok((builds, rounds, mut classes)) => {
                let n = user_paths(&c.prog).len();
                classes.push(format!("builds:{}", if builds > 500 { ">500" } else if builds > 100 { "101-500" } else { "<=100" }));
                classes.push(format!("rounds:{}", rounds.min(5)));
                Outcome::pass(n >= 3 && rounds >= 2).with_classes(classes)
            }
        }
    }
    fn show(&self, c: &Case) -> Value {
        json!({"width": c.w, "seed": c.seed, "pyxis": prog_text(&c.prog)})
    }
}

// ------------------------------------------------------------ fresh processes

pub struct FreshProcess {
    pub runs: usize,
}

pub fn build_once_cli(dir: &str, w: usize) {
    // used by `pv build-once`: the public entry point on a directory, result as one JSON line
    let out = format!("{dir}/out");
    let _ = std::fs::create_dir_all(&out);
    let r = catch(|| pyxis::build(std::path::Path::new(&format!("{dir}/in")), std::path::Path::new(&out), w));
    let v = match r {
        Err(p) => json!({"status": "panic", "msg": p}),
        Ok(Err(e)) => json!({"status": "err", "msg": format!("{e:#}")}),
        Ok(Ok(())) => json!({"status": "ok", "files": read_tree(std::path::Path::new(&out))}),
    };
    println!("{}", v);
}

impl Prop for FreshProcess {
    type Case = Case;
    crate::prog_shrink!();
    fn name(&self) -> String {
        "C09/fresh-process".into()
    }
    fn rule(&self) -> String {
        format!("same generator; the input files are written to disk and `pyxis::build` is run in {} fresh processes (fresh hash seeds, real file discovery); oracle: same status and byte-identical files across processes and equal to the in-process result. Non-trivial: >= 3 user items", self.runs)
    }
    fn gen(&self, t: &mut Tape) -> Case {
        if t.chance(1, 5) {
            let c = super::c11::gen_case(t);
            return Case { prog: c.prog, w: c.w, seed: t.u64() };
        }
        let cfg = hazard_cfg(t);
        let w = cfg.w;
        let (mut prog, _, _) = gen_prog(t, cfg);
        if t.chance(1, 6) {
            perturb(t, &mut prog);
        }
        if t.chance(1, 4) {
            add_vftable_refs(t, &mut prog);
        }
        if t.chance(1, 5) {
            add_foreign_impls(t, &mut prog);
        }
        if t.chance(1, 6) {
            add_module_named_like_item(t, &mut prog);
        }
        if t.chance(1, 5) {
            add_backend_spellings(t, &mut prog);
        }
        Case { prog, w, seed: t.u64() }
    }
    fn judge(&self, c: &Case) -> Outcome {
        let files = print_prog(&c.prog);
        let sc = Scratch::new("fresh");
        for (p, t) in &files {
            sc.write(&format!("in/{p}"), t);
        }
        let exe = std::env::current_exe().expect("current exe");
        let mut results: Vec<Value> = vec![];
        for k in 0..self.runs {
            let _ = std::fs::remove_dir_all(sc.path("out"));
            let out = std::process::Command::new(&exe)
                .arg("build-once")
                .arg(sc.dir.to_string_lossy().to_string())
                .arg(c.w.to_string())
                .output();
            let Ok(out) = out else {
                return Outcome::discard("cannot spawn worker");
            };
            let line = String::from_utf8_lossy(&out.stdout).to_string();
            let v: Value = match serde_json::from_str(line.trim()) {
                Ok(v) => v,
                Err(_) => json!({"status": "crash", "code": format!("{:?}", out.status), "stderr": String::from_utf8_lossy(&out.stderr).to_string()}),
            };
            if v["status"] == "crash" {
                return Outcome::fail("crash", format!("worker process #{k} died: {v}"));
            }
            results.push(v);
        }
        let strip = |v: &Value| -> Value {
            if v["status"] == "ok" {
                v.clone()
            } else {
                json!({"status": v["status"]})
            }
        };
        for (k, r) in results.iter().enumerate().skip(1) {
            if strip(r) != strip(&results[0]) {
                return Outcome::fail(
                    "nondeterministic",
                    format!("process #0 and process #{k} disagree:\n#0: {}\n#{k}: {}", short(&results[0]), short(r)),
                );
            }
        }
        // and equal to the in-process pipeline
        let inproc = build_mem(&files, c.w as usize, &MemOpts::default());
        let agree = match (&inproc, results[0]["status"].as_str()) {
            (Res::Ok(b), Some("ok")) => {
                let m: std::collections::BTreeMap<String, String> = serde_json::from_value(results[0]["files"].clone()).unwrap_or_default();
                m == b.files
            }
            (Res::Err(_), Some("err")) => true,
            (Res::Panic(_), Some("panic")) => true,
            _ => false,
        };
        if !agree {
            return Outcome::fail("nondeterministic", format!("in-process build: {}; fresh process: {}", inproc.brief(), short(&results[0])));
        }
        Outcome::pass(user_paths(&c.prog).len() >= 3).class(&format!("status:{}", results[0]["status"].as_str().unwrap_or("?")))
    }
    fn show(&self, c: &Case) -> Value {
        json!({"width": c.w, "pyxis": prog_text(&c.prog)})
    }
}

fn short(v: &Value) -> String {
    let s = v.to_string();
    if s.len() > 600 {
        format!("{}…", &s[..600])
    } else {
        s
    }
}

pub fn props() -> Vec<Box<dyn DynProp>> {
    vec![
        Box::new(Schedules {
            exhaustive_upto: 5,
            sampled: 40,
        }),
        Box::new(FreshProcess { runs: 3 }),
    ]
}

pub fn run(ctx: &mut Ctx) {
    let q = ctx.quick();
    ctx.run(
        &Schedules {
            exhaustive_upto: if q { 5 } else { 6 },
            sampled: if q { 40 } else { 200 },
        },
        &Params::new(if q { 2500 } else { 40000 }, 100, 1500).shrink(150),
    );
    ctx.run(&FreshProcess { runs: if q { 3 } else { 6 } }, &Params::new(if q { 300 } else { 5000 }, 100, 1500).shrink(40));
}
