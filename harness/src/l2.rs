//! L2/L3: assemble the emitted files into a crate, append probes, let rustc judge
//! (stable for the 64-bit host, nightly + mini-sysroot for i686-pc-windows-msvc),
//! optionally link and run on the host.

use std::collections::BTreeMap;
use std::path::PathBuf;
use std::process::Command;

use serde_json::Value;

use crate::driver::verif_root;
use crate::model::Prog;
use crate::pipeline::Scratch;

fn tool_path(name: &str, fallback: &str) -> String {
    std::fs::read_to_string(verif_root().join(".cache").join(name))
        .map(|s| s.trim().to_string())
        .unwrap_or_else(|_| fallback.to_string())
}

pub fn rustc_stable() -> String {
    tool_path("rustc_stable_path", "rustc")
}
pub fn rustc_nightly() -> String {
    tool_path("rustc_nightly_path", "rustc")
}
pub fn sysroot32() -> PathBuf {
    verif_root().join(".cache").join("sysroot32")
}
pub fn l2_available() -> Result<(), String> {
    if !sysroot32().join("ok").exists() {
        return Err(format!("{} missing: run ./setup.sh", sysroot32().display()));
    }
    Ok(())
}

const ABIS_TO_NORMALISE: &[&str] = &["thiscall", "stdcall", "fastcall", "vectorcall", "cdecl"];

/// C13's prescribed normalisation for the 64-bit host: only the ABI strings change.
pub fn normalise_abis(src: &str) -> String {
    let mut s = src.to_string();
    for a in ABIS_TO_NORMALISE {
        s = s.replace(&format!("extern \"{a}\""), "extern \"C\"");
    }
    s
}

#[derive(Clone, Debug)]
pub struct Diag {
    pub file: String,
    pub line: usize,
    pub code: String,
    pub message: String,
    pub rendered: String,
}

#[derive(Clone, Debug, Default)]
pub struct Probe {
    pub file: String,
    pub label: String,
    pub expr: String,
    pub expected: u64,
    /// filled after the run: None = held, Some(found) = the compiler's value (u64::MAX if unknown)
    pub found: Option<u64>,
    pub line: usize,
}

/// Collects text to append to emitted files: extern-type definitions and a probe module.
#[derive(Default)]
pub struct Appendix {
    pub extern_defs: BTreeMap<String, Vec<String>>,
    pub probes: Vec<Probe>,
    pub extra_items: BTreeMap<String, Vec<String>>,
}

impl Appendix {
    pub fn new() -> Appendix {
        Appendix::default()
    }
    pub fn supply_extern_types(&mut self, prog: &Prog) {
        for m in &prog.mods {
            for e in &m.ext_types {
                self.extern_defs.entry(m.out_path()).or_default().push(format!(
                    "#[repr(C, align({}))] #[derive(Clone, Copy)] pub struct {}(pub [u8; {}]);",
                    e.align.u().max(1),
                    e.name,
                    e.size.u()
                ));
            }
        }
    }
    /// `expr` is a const expression of type usize, evaluated inside `mod __pv { use super::*; }` of `file`.
    pub fn probe(&mut self, file: &str, label: &str, expr: &str, expected: u64) {
        self.probes.push(Probe {
            file: file.to_string(),
            label: label.to_string(),
            expr: expr.to_string(),
            expected,
            found: None,
            line: 0,
        });
    }
    pub fn item(&mut self, file: &str, text: &str) {
        self.extra_items.entry(file.to_string()).or_default().push(text.to_string());
    }
}

pub struct Assembled {
    /// relative path -> content; includes lib.rs
    pub files: BTreeMap<String, String>,
    pub probes: Vec<Probe>,
}

/// Declare the emitted files as modules mirroring the input tree, supply the extern types, append probes.
pub fn assemble(emitted: &BTreeMap<String, String>, w: u64, mut app: Appendix, root_extra: &str, bin: bool) -> Assembled {
    let mut files: BTreeMap<String, String> = BTreeMap::new();
    for (p, text) in emitted {
        let t = if w == 8 { normalise_abis(text) } else { text.clone() };
        files.insert(p.clone(), t);
    }
    // module tree: children[dir path] = set of child names
    let mut children: BTreeMap<Vec<String>, Vec<String>> = BTreeMap::new();
    let paths: Vec<Vec<String>> = emitted.keys().map(|p| p.trim_end_matches(".rs").split('/').map(|s| s.to_string()).collect()).collect();
    for p in &paths {
        for d in 0..p.len() {
            let parent = p[..d].to_vec();
            let child = p[d].clone();
            let e = children.entry(parent).or_default();
            if !e.contains(&child) {
                e.push(child);
            }
        }
    }
    // append to every emitted file: extern defs, probes, child mods
    for (rel, content) in files.iter_mut() {
        let mut add = String::new();
        add.push('\n');
        if let Some(defs) = app.extern_defs.get(rel) {
            for d in defs {
                add.push_str(d);
                add.push('\n');
            }
        }
        if let Some(items) = app.extra_items.get(rel) {
            for d in items {
                add.push_str(d);
                add.push('\n');
            }
        }
        let modp: Vec<String> = rel.trim_end_matches(".rs").split('/').map(|s| s.to_string()).collect();
        if let Some(ch) = children.get(&modp) {
            for c in ch {
                add.push_str(&format!("pub mod {c};\n"));
            }
        }
        content.push_str(&add);
        let has_probes = app.probes.iter().any(|p| p.file == *rel);
        if has_probes {
            if !content.ends_with('\n') {
                content.push('\n');
            }
            content.push_str("#[allow(unused, non_snake_case)]\nmod __pv {\n    use super::*;\n");
            for p in app.probes.iter_mut().filter(|p| p.file == *rel) {
                p.line = content.matches('\n').count() + 1;
                content.push_str(&format!("    const _: [(); {}] = [(); {}];\n", p.expected, p.expr));
            }
            content.push_str("}\n");
        }
    }
    // intermediate directory modules without a file of their own
    for (parent, ch) in &children {
        if parent.is_empty() {
            continue;
        }
        let rel = format!("{}.rs", parent.join("/"));
        if !files.contains_key(&rel) {
            let mut s = String::new();
            for c in ch {
                s.push_str(&format!("pub mod {c};\n"));
            }
            files.insert(rel, s);
        }
    }
    // root
    let mut root = String::new();
    if w == 4 {
        root.push_str("#![no_std]\n#![feature(abi_vectorcall)]\n");
    }
    root.push_str("#![allow(warnings)]\n");
    if w == 4 {
        root.push_str("extern crate core as std;\n");
    }
    if let Some(ch) = children.get(&Vec::<String>::new()) {
        for c in ch {
            root.push_str(&format!("pub mod {c};\n"));
        }
    }
    root.push_str(root_extra);
    files.insert(if bin { "main.rs".to_string() } else { "lib.rs".to_string() }, root);
    Assembled { files, probes: app.probes }
}

pub struct RustcOut {
    pub ok: bool,
    pub errors: Vec<Diag>,
    pub probes: Vec<Probe>,
    pub machinery_error: Option<String>,
}

fn parse_diags(stderr: &str, dir: &str) -> Vec<Diag> {
    let mut out = vec![];
    for line in stderr.lines() {
        let Ok(v) = serde_json::from_str::<Value>(line) else { continue };
        if v["level"] != "error" {
            continue;
        }
        let msg = v["message"].as_str().unwrap_or("").to_string();
        if msg.starts_with("aborting due to") {
            continue;
        }
        let span = v["spans"].as_array().and_then(|a| a.iter().find(|s| s["is_primary"] == true).or(a.first())).cloned().unwrap_or(Value::Null);
        let file = span["file_name"].as_str().unwrap_or("").trim_start_matches(dir).trim_start_matches('/').to_string();
        out.push(Diag {
            file,
            line: span["line_start"].as_u64().unwrap_or(0) as usize,
            code: v["code"]["code"].as_str().unwrap_or("").to_string(),
            message: msg,
            rendered: v["rendered"].as_str().unwrap_or("").to_string(),
        });
    }
    out
}

fn found_size(rendered: &str) -> Option<u64> {
    // "expected an array with a size of 24, found one with a size of 28"
    let i = rendered.find("found one with a size of ")?;
    let rest = &rendered[i + "found one with a size of ".len()..];
    let digits: String = rest.chars().take_while(|c| c.is_ascii_digit()).collect();
    digits.parse().ok()
}

/// Type-check (or, with `run`, build and execute) the assembled crate.
pub fn rustc_check(asm: Assembled, w: u64) -> RustcOut {
    let sc = Scratch::new("l2");
    for (p, t) in &asm.files {
        sc.write(p, t);
    }
    let dir = sc.dir.to_string_lossy().to_string();
    let mut cmd;
    if w == 4 {
        cmd = Command::new(rustc_nightly());
        cmd.arg("--target").arg("i686-pc-windows-msvc").arg("--sysroot").arg(sysroot32());
    } else {
        cmd = Command::new(rustc_stable());
    }
    cmd.arg("--edition")
        .arg("2021")
        .arg("--crate-type")
        .arg("lib")
        .arg("--crate-name")
        .arg("pvcrate")
        .arg("--emit=metadata")
        // the property is about type-checking: deny-by-default lints (e.g. bindings_with_variant_name,
        // a parameter named like a case of its enum type) are not type errors
        .arg("--cap-lints")
        .arg("warn")
        .arg("--error-format=json")
        .arg("-o")
        .arg(sc.path("out.rmeta"))
        .arg(sc.path("lib.rs"));
    let out = match cmd.output() {
        Ok(o) => o,
        Err(e) => {
            return RustcOut {
                ok: false,
                errors: vec![],
                probes: asm.probes,
                machinery_error: Some(format!("cannot run rustc: {e}")),
            }
        }
    };
    let stderr = String::from_utf8_lossy(&out.stderr).to_string();
    let mut errors = parse_diags(&stderr, &dir);
    let mut probes = asm.probes;
    // attribute probe mismatches
    errors.retain(|d| {
        if let Some(p) = probes.iter_mut().find(|p| p.file == d.file && p.line == d.line) {
            p.found = Some(found_size(&d.rendered).unwrap_or(u64::MAX));
            if found_size(&d.rendered).is_none() {
                // a probe line that fails for another reason (e.g. unknown field): keep the diagnostic too
                p.label = format!("{} [{}]", p.label, d.message);
            }
            false
        } else {
            true
        }
    });
    let machinery_error = if !out.status.success() && errors.is_empty() && probes.iter().all(|p| p.found.is_none()) {
        Some(format!("rustc failed without diagnostics: {}", stderr.chars().take(2000).collect::<String>()))
    } else {
        None
    };
    RustcOut {
        ok: out.status.success(),
        errors,
        probes,
        machinery_error,
    }
}

pub struct RunOut {
    pub compile_errors: Vec<Diag>,
    pub stdout: String,
    pub stderr: String,
    pub status: String,
    pub machinery_error: Option<String>,
}

/// Build an executable for the host from the assembled crate (root = main.rs) and run it.
pub fn rustc_run(asm: Assembled) -> RunOut {
    let sc = Scratch::new("l3");
    for (p, t) in &asm.files {
        sc.write(p, t);
    }
    let dir = sc.dir.to_string_lossy().to_string();
    let exe = sc.path("pvbin");
    let out = Command::new(rustc_stable())
        .arg("--edition")
        .arg("2021")
        .arg("--crate-name")
        .arg("pvbin")
        .arg("-C")
        .arg("opt-level=0")
        .arg("-C")
        .arg("debuginfo=0")
        .arg("-C")
        .arg("overflow-checks=off")
        .arg("--cap-lints")
        .arg("warn")
        .arg("--error-format=json")
        .arg("-o")
        .arg(&exe)
        .arg(sc.path("main.rs"))
        .output();
    let out = match out {
        Ok(o) => o,
        Err(e) => {
            return RunOut {
                compile_errors: vec![],
                stdout: String::new(),
                stderr: String::new(),
                status: String::new(),
                machinery_error: Some(format!("cannot run rustc: {e}")),
            }
        }
    };
    let stderr = String::from_utf8_lossy(&out.stderr).to_string();
    if !out.status.success() {
        let errs = parse_diags(&stderr, &dir);
        return RunOut {
            machinery_error: if errs.is_empty() { Some(format!("rustc failed: {}", stderr.chars().take(2000).collect::<String>())) } else { None },
            compile_errors: errs,
            stdout: String::new(),
            stderr,
            status: String::new(),
        };
    }
    let run = Command::new(&exe).output();
    match run {
        Err(e) => RunOut {
            compile_errors: vec![],
            stdout: String::new(),
            stderr: String::new(),
            status: String::new(),
            machinery_error: Some(format!("cannot run driver: {e}")),
        },
        Ok(o) => RunOut {
            compile_errors: vec![],
            stdout: String::from_utf8_lossy(&o.stdout).to_string(),
            stderr: String::from_utf8_lossy(&o.stderr).to_string(),
            status: format!("{}", o.status),
            machinery_error: None,
        },
    }
}
