use pv::{checks, driver, genprog, model, pipeline, tape};

use driver::{Ctx, DynProp, Tier, Verdict};

struct Check {
    id: &'static str,
    run: fn(&mut Ctx),
    props: fn() -> Vec<Box<dyn DynProp>>,
}

fn registry() -> Vec<Check> {
    vec![
        Check {
            id: "C01",
            run: checks::c01::run,
            props: checks::c01::props,
        },
        Check {
            id: "C02",
            run: checks::c02::run,
            props: checks::c02::props,
        },
        Check {
            id: "C12",
            run: checks::c12::run,
            props: checks::c12::props,
        },
        Check {
            id: "C13",
            run: checks::c13::run,
            props: checks::c13::props,
        },
        Check {
            id: "C03",
            run: checks::c03::run,
            props: checks::c03::props,
        },
        Check {
            id: "C04",
            run: checks::c04::run,
            props: checks::c04::props,
        },
        Check {
            id: "C05",
            run: checks::c05::run,
            props: checks::c05::props,
        },
        Check {
            id: "C06",
            run: checks::c06::run,
            props: checks::c06::props,
        },
        Check {
            id: "C07",
            run: checks::c07::run,
            props: checks::c07::props,
        },
        Check {
            id: "C08",
            run: checks::c08::run,
            props: checks::c08::props,
        },
        Check {
            id: "C09",
            run: checks::c09::run,
            props: checks::c09::props,
        },
        Check {
            id: "C10",
            run: checks::c10::run,
            props: checks::c10::props,
        },
        Check {
            id: "C11",
            run: checks::c11::run,
            props: checks::c11::props,
        },
        Check {
            id: "C14",
            run: checks::c14::run,
            props: checks::c14::props,
        },
        Check {
            id: "C15",
            run: checks::c15::run,
            props: checks::c15::props,
        },
        Check {
            id: "C16",
            run: checks::c16::run,
            props: checks::c16::props,
        },
        Check {
            id: "C17",
            run: checks::c17::run,
            props: checks::c17::props,
        },
        Check {
            id: "C19",
            run: checks::c19::run,
            props: checks::c19::props,
        },
        Check {
            id: "C20",
            run: checks::c20::run,
            props: checks::c20::props,
        },
        Check {
        id: "C18",
        run: checks::c18::run,
        props: checks::c18::props,
    }]
}

fn usage() -> ! {
    eprintln!("usage: pv check <ID> [--tier quick|thorough] [--seed N]\n       pv replay <ID> <file>");
    std::process::exit(2);
}

#[derive(Debug)]
struct KfLine {
    fixed: bool,
    property: String,
    replay: Option<String>,
    text: String,
}

fn known_findings() -> Vec<KfLine> {
    let path = driver::verif_root().join("KNOWN_FINDINGS.txt");
    let Ok(text) = std::fs::read_to_string(path) else { return vec![] };
    let mut out = vec![];
    for line in text.lines() {
        let line = line.trim();
        let (fixed, rest) = if let Some(r) = line.strip_prefix("known:") {
            (false, r)
        } else if let Some(r) = line.strip_prefix("fixed:") {
            (true, r)
        } else {
            continue;
        };
        let mut property = String::new();
        let mut replay = None;
        let mut words = vec![];
        for w in rest.split_whitespace() {
            if let Some(p) = w.strip_prefix("property=") {
                property = p.to_string();
            } else if let Some(p) = w.strip_prefix("replay=") {
                replay = Some(p.to_string());
            } else {
                words.push(w);
            }
        }
        out.push(KfLine {
            fixed,
            property,
            replay,
            text: words.join(" "),
        });
    }
    out
}

/// Judge one replay file. Returns (prop name, outcome).
fn judge_replay(chk: &Check, path: &std::path::Path) -> Result<(String, String, driver::Outcome), String> {
    let text = std::fs::read_to_string(path).map_err(|e| format!("cannot read {}: {e}", path.display()))?;
    let v: serde_json::Value = serde_json::from_str(&text).map_err(|e| format!("bad json in {}: {e}", path.display()))?;
    let prop = v["prop"].as_str().unwrap_or("").to_string();
    let kind = v["kind"].as_str().unwrap_or("").to_string();
    for p in (chk.props)() {
        if p.dyn_name() == prop {
            let o = p.dyn_replay(&v["case"])?;
            return Ok((prop, kind, o));
        }
    }
    Err(format!("no property part named `{prop}` in {}", chk.id))
}

fn main() {
    let args: Vec<String> = std::env::args().collect();
    if args.len() < 2 || (args.len() < 3 && args[1] != "write-demos") {
        usage();
    }
    pipeline::install_quiet_panic_hook();
    if args[1] == "c12-worker" {
        pipeline::install_quiet_panic_hook();
        checks::c12::worker_main();
        pipeline::cleanup_work_root();
        return;
    }
    if args[1] == "build-once" {
        pipeline::install_quiet_panic_hook();
        checks::c09::build_once_cli(&args[2], args.get(3).and_then(|s| s.parse().ok()).unwrap_or(4));
        return;
    }
    if args[1] == "write-demos" {
        pipeline::install_quiet_panic_hook();
        for d in pv::demos::demos() {
            let reg = registry();
            let chk = reg.iter().find(|c| c.id == d.property).expect("property");
            let p = (chk.props)().into_iter().find(|p| p.dyn_name() == d.prop).expect("prop");
            let o = p.dyn_replay(&d.case).expect("case decodes");
            let (kind, detail) = match &o.verdict {
                Verdict::Fail(k, dt) => (k.clone(), dt.clone()),
                Verdict::Pass => ("PASS".to_string(), String::new()),
                Verdict::Discard(w) => (format!("DISCARD {w}"), String::new()),
            };
            println!("{} {} -> {}", d.property, d.stem, kind);
            let dir = driver::verif_root().join("replays").join(d.property);
            let _ = std::fs::create_dir_all(&dir);
            let body = serde_json::json!({"property": d.property, "prop": d.prop, "kind": kind, "detail": detail, "case": d.case});
            std::fs::write(dir.join(format!("{}.json", d.stem)), serde_json::to_string_pretty(&body).unwrap()).unwrap();
        }
        pipeline::cleanup_work_root();
        return;
    }
    if args[1] == "gen-corpus" {
        gen_corpus(&args[2], args.get(3).and_then(|s| s.parse().ok()).unwrap_or(100));
        pipeline::cleanup_work_root();
        return;
    }
    if args[1] == "gen-stats" {
        gen_stats(args[2].parse().unwrap_or(1000), args.get(3).and_then(|s| s.parse().ok()).unwrap_or(4));
        pipeline::cleanup_work_root();
        return;
    }
    let id = args[2].clone();
    let reg = registry();
    let Some(chk) = reg.iter().find(|c| c.id == id) else {
        eprintln!("unknown property id {id}");
        std::process::exit(2);
    };
    match args[1].as_str() {
        "check" => {
            let mut tier = match std::env::var("VERIF_TIER").as_deref() {
                Ok("thorough") => Tier::Thorough,
                _ => Tier::Quick,
            };
            let mut seed: u64 = std::env::var("VERIF_SEED")
                .ok()
                .and_then(|s| s.trim().parse::<i128>().ok())
                .map(|v| v as u64)
                .unwrap_or(20261004);
            let mut i = 3;
            while i < args.len() {
                match args[i].as_str() {
                    "--tier" => {
                        i += 1;
                        tier = match args.get(i).map(|s| s.as_str()) {
                            Some("thorough") => Tier::Thorough,
                            Some("quick") => Tier::Quick,
                            _ => usage(),
                        };
                    }
                    "--seed" => {
                        i += 1;
                        seed = args.get(i).and_then(|s| s.parse::<i128>().ok()).map(|v| v as u64).unwrap_or_else(|| usage());
                    }
                    _ => usage(),
                }
                i += 1;
            }
            driver::set_thorough(tier == Tier::Thorough);
            let mut ctx = Ctx::new(&id, tier, seed);
            // the harness's own budget: a hang in the machinery is reported as exit 2, never as a violation
            let budget_s: u64 = std::env::var("PV_WATCHDOG_S").ok().and_then(|s| s.parse().ok()).unwrap_or(if tier == Tier::Quick { 1500 } else { 6 * 3600 });
            std::thread::spawn(move || {
                std::thread::sleep(std::time::Duration::from_secs(budget_s));
                eprintln!("MACHINERY-ERROR: watchdog: the check exceeded its own budget of {budget_s} s (inconclusive)");
                pipeline::cleanup_work_root();
                std::process::exit(2);
            });

            // known findings / fixed regressions of this property
            let mut lines = vec![];
            for kf in known_findings().into_iter().filter(|k| k.property == id) {
                let Some(rp) = &kf.replay else {
                    continue;
                };
                let path = driver::verif_root().join(rp);
                match judge_replay(chk, &path) {
                    Err(e) => {
                        eprintln!("machinery error: {e}");
                        pipeline::cleanup_work_root();
                        std::process::exit(2);
                    }
                    Ok((prop, kind, o)) => match (&o.verdict, kf.fixed) {
                        (Verdict::Fail(k, _), false) if *k == kind => {
                            lines.push(format!("KNOWN-FINDING: property={id} {}", kf.text));
                            ctx.known_findings.push(format!("{} [{}; still fails as `{}`]", kf.text, rp, k));
                        }
                        (Verdict::Fail(k, d), _) => {
                            // a fixed finding that came back, or a known one failing in a different way
                            ctx.violations.push(driver::Violation {
                                prop,
                                kind: k.clone(),
                                detail: d.clone(),
                                replay_path: path.to_string_lossy().to_string(),
                            });
                        }
                        (_, false) => {
                            ctx.notes.push(format!("known finding no longer reproduces: {}", kf.text));
                        }
                        (_, true) => {
                            ctx.notes.push(format!("fixed finding stays fixed: {}", kf.text));
                        }
                    },
                }
            }
            for l in &lines {
                println!("{l}");
            }
            // saved regression inputs (replays/<ID>/regress-*.json) are judged as ordinary cases
            if let Ok(rd) = std::fs::read_dir(driver::verif_root().join("replays").join(&id)) {
                let mut paths: Vec<_> = rd.flatten().map(|e| e.path()).collect();
                paths.sort();
                for p in paths {
                    let name = p.file_name().unwrap().to_string_lossy().to_string();
                    if !name.starts_with("regress-") {
                        continue;
                    }
                    match judge_replay(chk, &p) {
                        Err(e) => {
                            eprintln!("machinery error: {e}");
                            pipeline::cleanup_work_root();
                            std::process::exit(2);
                        }
                        Ok((prop, _k, o)) => {
                            if let Verdict::Fail(k, d) = &o.verdict {
                                ctx.violations.push(driver::Violation {
                                    prop,
                                    kind: k.clone(),
                                    detail: d.clone(),
                                    replay_path: p.to_string_lossy().to_string(),
                                });
                            }
                        }
                    }
                }
            }
            if ctx.violations.is_empty() {
                let r = std::panic::catch_unwind(std::panic::AssertUnwindSafe(|| (chk.run)(&mut ctx)));
                if r.is_err() {
                    let msg = pipeline::LAST_PANIC_ANY.lock().ok().and_then(|g| g.clone()).unwrap_or_default();
                    eprintln!("MACHINERY-ERROR: the harness itself panicked: {msg}");
                    pipeline::cleanup_work_root();
                    std::process::exit(2);
                }
            }
            ctx.write_evidence();
            pipeline::cleanup_work_root();
            for p in &ctx.parts {
                eprintln!(
                    "[{}] evals={} nontrivial={} distinct={} discards={:?} {:.1}s{}",
                    p.name,
                    p.evaluations,
                    p.nontrivial_evals,
                    p.distinct_nontrivial,
                    p.discards,
                    p.wall_s,
                    if p.exhaustive { " (exhaustive)" } else { "" }
                );
            }
            if ctx.violations.is_empty() {
                // a part that judged nothing means the machinery did not run (missing sysroot, rustc, …): never "held"
                if let Some(p) = ctx.parts.iter().find(|p| p.evaluations == 0) {
                    eprintln!("MACHINERY-ERROR: part {} judged no case at all (discards: {:?}); run ./setup.sh?", p.name, p.discards);
                    std::process::exit(2);
                }
                println!("OK property={id} tier={} seed={seed}", tier.name());
                std::process::exit(0);
            }
            for v in &ctx.violations {
                println!("VIOLATION property={id} replay={}", v.replay_path);
                eprintln!("  part={} kind={}", v.prop, v.kind);
            }
            std::process::exit(1);
        }
        "replay" => {
            if args.len() < 4 {
                usage();
            }
            let path = std::path::PathBuf::from(&args[3]);
            match judge_replay(chk, &path) {
                Err(e) => {
                    eprintln!("machinery error: {e}");
                    std::process::exit(2);
                }
                Ok((prop, _kind, o)) => {
                    pipeline::cleanup_work_root();
                    match o.verdict {
                        Verdict::Fail(k, d) => {
                            eprintln!("part={prop} kind={k}\n{d}");
                            println!("VIOLATION property={id} replay={}", path.display());
                            std::process::exit(1);
                        }
                        Verdict::Pass => {
                            println!("OK property={id} replay passes ({prop})");
                            std::process::exit(0);
                        }
                        Verdict::Discard(w) => {
                            println!("OK property={id} replay discarded ({prop}): {w}");
                            std::process::exit(0);
                        }
                    }
                }
            }
        }
        _ => usage(),
    }
}

fn gen_stats(n: usize, w: u64) {
    use proptest::strategy::{Strategy, ValueTree};
    let mut cfg = proptest::test_runner::Config::default();
    cfg.rng_seed = proptest::test_runner::RngSeed::Fixed(1);
    cfg.failure_persistence = None;
    let mut runner = proptest::test_runner::TestRunner::new(cfg);
    let strat = proptest::collection::vec(proptest::num::u32::ANY, 100..=3000);
    let mut errs: std::collections::BTreeMap<String, (u64, String)> = Default::default();
    let mut ok = 0;
    let mut items = 0;
    let mut repairs: std::collections::BTreeMap<String, u64> = Default::default();
    for _ in 0..n {
        let tape = strat.new_tree(&mut runner).unwrap().current();
        let mut t = tape::Tape::new(&tape);
        let (prog, known, rep) = genprog::gen_prog(&mut t, genprog::GenCfg::rich(w));
        for (k, v) in rep {
            *repairs.entry(k).or_insert(0) += v;
        }
        items += known.len();
        match pipeline::build_prog(&prog, w as usize) {
            pipeline::Res::Ok(_) => ok += 1,
            other => {
                let b = other.brief();
                let key: String = b.chars().filter(|c| !c.is_ascii_digit()).take(90).collect();
                let e = errs.entry(key).or_insert((0, String::new()));
                e.0 += 1;
                if e.1.is_empty() {
                    e.1 = format!("{}\n{}", b, model::prog_text(&prog));
                }
            }
        }
    }
    println!("ok {ok}/{n}, items/prog {:.1}, repairs {repairs:?}", items as f64 / n as f64);
    for (k, (c, ex)) in errs {
        println!("=== {c} x {k}\n{ex}");
    }
    pipeline::cleanup_work_root();
}

/// Writes seed inputs for the fuzz targets: printed generator output (single modules).
fn gen_corpus(dir: &str, n: usize) {
    use proptest::strategy::{Strategy, ValueTree};
    let mut cfg = proptest::test_runner::Config::default();
    cfg.rng_seed = proptest::test_runner::RngSeed::Fixed(7);
    cfg.failure_persistence = None;
    let mut runner = proptest::test_runner::TestRunner::new(cfg);
    let strat = proptest::collection::vec(proptest::num::u32::ANY, 50..=600);
    std::fs::create_dir_all(dir).unwrap();
    for i in 0..n {
        let tape = strat.new_tree(&mut runner).unwrap().current();
        let mut t = tape::Tape::new(&tape);
        let text = if i % 3 == 0 {
            pv::gast::print_gmod(&pv::gast::gen_gmod(&mut t), pv::gast::Style::canonical())
        } else {
            let mut c = genprog::GenCfg::rich(if i % 2 == 0 { 4 } else { 8 });
            c.max_mods = 1;
            c.max_items = 4;
            c.max_fields = 4;
            let (prog, _, _) = genprog::gen_prog(&mut t, c);
            model::print_mod(&prog.mods[0])
        };
        if text.len() < 3000 {
            std::fs::write(format!("{dir}/seed-{i:04}.pyxis"), text).unwrap();
        }
    }
}
