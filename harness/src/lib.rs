//! Verification harness for philpax/pyxis (see /verif/DESIGN.md).
#![allow(dead_code)]
pub mod checks;
pub mod corpus;
pub mod driver;
pub mod gast;
pub mod genprog;
pub mod model;
pub mod pipeline;
pub mod refmodel;
pub mod rsview;
pub mod l2;
pub mod l3;
pub mod tape;
pub mod demos;
