//! Running the real pyxis pipeline in-process, under catch_unwind, in scratch
//! directories that are removed afterwards.

use std::collections::BTreeMap;
use std::path::{Path, PathBuf};
use std::sync::atomic::{AtomicU64, Ordering};

use pyxis::grammar::ItemPath;
use pyxis::semantic::SemanticState;

static COUNTER: AtomicU64 = AtomicU64::new(0);

pub fn work_root() -> PathBuf {
    if let Ok(p) = std::env::var("PV_WORK") {
        return PathBuf::from(p);
    }
    let shm = Path::new("/dev/shm");
    if shm.is_dir() {
        shm.join(format!("pv-work-{}", std::process::id()))
    } else {
        PathBuf::from(format!("/verif/.work/{}", std::process::id()))
    }
}

pub fn cleanup_work_root() {
    if std::env::var("PV_KEEP_SCRATCH").map(|v| !v.is_empty()).unwrap_or(false) {
        return;
    }
    let _ = std::fs::remove_dir_all(work_root());
}

pub struct Scratch {
    pub dir: PathBuf,
    keep: bool,
}
impl Scratch {
    pub fn new(tag: &str) -> Scratch {
        let n = COUNTER.fetch_add(1, Ordering::Relaxed);
        let dir = work_root().join(format!("{tag}-{n}"));
        let _ = std::fs::remove_dir_all(&dir);
        std::fs::create_dir_all(&dir).expect("create scratch dir");
        // debugging aid: PV_KEEP_SCRATCH=1 leaves every scratch directory behind
        Scratch { dir, keep: std::env::var("PV_KEEP_SCRATCH").map(|v| !v.is_empty()).unwrap_or(false) }
    }
    pub fn keep(&mut self) {
        self.keep = true;
    }
    pub fn path(&self, rel: &str) -> PathBuf {
        self.dir.join(rel)
    }
    pub fn write(&self, rel: &str, text: &str) {
        let p = self.dir.join(rel);
        if let Some(d) = p.parent() {
            std::fs::create_dir_all(d).expect("mkdir");
        }
        std::fs::write(&p, text).expect("write scratch file");
    }
}
impl Drop for Scratch {
    fn drop(&mut self) {
        if !self.keep {
            let _ = std::fs::remove_dir_all(&self.dir);
        }
    }
}

pub static LAST_PANIC_ANY: std::sync::Mutex<Option<String>> = std::sync::Mutex::new(None);
thread_local! {
    static IN_CATCH: std::cell::Cell<bool> = const { std::cell::Cell::new(false) };
    static LAST_PANIC: std::cell::RefCell<Option<String>> = const { std::cell::RefCell::new(None) };
}

/// Install a panic hook that records message + location in a thread-local and
/// stays quiet (unless PV_LOUD_PANICS is set).
pub fn install_quiet_panic_hook() {
    let loud = std::env::var("PV_LOUD_PANICS").is_ok();
    let default = std::panic::take_hook();
    std::panic::set_hook(Box::new(move |info| {
        let msg = if let Some(s) = info.payload().downcast_ref::<&str>() {
            s.to_string()
        } else if let Some(s) = info.payload().downcast_ref::<String>() {
            s.clone()
        } else {
            "<non-string panic>".to_string()
        };
        let loc = info
            .location()
            .map(|l| format!("{}:{}", l.file(), l.line()))
            .unwrap_or_default();
        LAST_PANIC.with(|p| *p.borrow_mut() = Some(format!("{msg} @ {loc}")));
        if !IN_CATCH.with(|c| c.get()) {
            // a panic of the harness itself, not of the code under test
            if let Ok(mut g) = LAST_PANIC_ANY.lock() {
                *g = Some(format!("{msg} @ {loc}"));
            }
        }
        if loud {
            default(info);
        }
    }));
}

pub fn catch<T>(f: impl FnOnce() -> T) -> Result<T, String> {
    LAST_PANIC.with(|p| *p.borrow_mut() = None);
    let was = IN_CATCH.with(|c| c.replace(true));
    let r = std::panic::catch_unwind(std::panic::AssertUnwindSafe(f));
    IN_CATCH.with(|c| c.set(was));
    match r {
        Ok(v) => Ok(v),
        Err(_) => Err(LAST_PANIC
            .with(|p| p.borrow_mut().take())
            .unwrap_or_else(|| "<panic>".into())),
    }
}

#[derive(Clone, Debug, PartialEq, Eq)]
pub struct ItemInfo {
    pub size: usize,
    pub align: usize,
    /// "defined" | "extern" | "predefined"
    pub category: &'static str,
    pub is_enum: bool,
}

#[derive(Clone, Debug)]
pub struct Built {
    /// rel path ("a/b.rs") -> content
    pub files: BTreeMap<String, String>,
    /// "a::b::T" -> info, for every non-predefined registered item
    pub items: BTreeMap<String, ItemInfo>,
}

#[derive(Clone, Debug)]
pub enum Res {
    Ok(Built),
    Err(String),
    Panic(String),
}
impl Res {
    pub fn is_ok(&self) -> bool {
        matches!(self, Res::Ok(_))
    }
    pub fn ok(&self) -> Option<&Built> {
        match self {
            Res::Ok(b) => Some(b),
            _ => None,
        }
    }
    pub fn err_text(&self) -> Option<&str> {
        match self {
            Res::Err(e) => Some(e),
            _ => None,
        }
    }
    pub fn brief(&self) -> String {
        match self {
            Res::Ok(b) => format!("Ok({} files)", b.files.len()),
            Res::Err(e) => format!("Err({})", e.lines().next().unwrap_or("")),
            Res::Panic(p) => format!("PANIC({p})"),
        }
    }
}

pub fn read_tree(dir: &Path) -> BTreeMap<String, String> {
    fn walk(base: &Path, d: &Path, out: &mut BTreeMap<String, String>) {
        let Ok(rd) = std::fs::read_dir(d) else { return };
        for e in rd.flatten() {
            let p = e.path();
            if p.is_dir() {
                walk(base, &p, out);
            } else {
                let rel = p.strip_prefix(base).unwrap().to_string_lossy().to_string();
                let text = String::from_utf8_lossy(&std::fs::read(&p).unwrap_or_default()).to_string();
                out.insert(rel, text);
            }
        }
    }
    let mut out = BTreeMap::new();
    walk(dir, dir, &mut out);
    out
}

/// The public entry point exactly as a build script uses it: files on disk,
/// `pyxis::build(in, out, width)`.
pub fn build_via_lib(files: &[(String, String)], width: usize) -> Res {
    let sc = Scratch::new("lib");
    for (p, t) in files {
        sc.write(&format!("in/{p}"), t);
    }
    std::fs::create_dir_all(sc.path("in")).ok();
    std::fs::create_dir_all(sc.path("out")).ok();
    let r = catch(|| pyxis::build(&sc.path("in"), &sc.path("out"), width));
    match r {
        Err(p) => Res::Panic(p),
        Ok(Err(e)) => Res::Err(format!("{e:#}")),
        Ok(Ok(())) => Res::Ok(Built {
            files: read_tree(&sc.path("out")),
            items: BTreeMap::new(),
        }),
    }
}

pub fn item_path(segs: &[String]) -> ItemPath {
    segs.iter()
        .map(|s| pyxis::grammar::ItemPathSegment::from(s.as_str()))
        .collect()
}

fn mod_path_of_file(rel: &str) -> ItemPath {
    ItemPath::from_path(Path::new(rel))
}

/// A resolution schedule installed through the cfg(pyxis_verif) hook.  Each is a pure function of
/// the (sorted) set of unresolved paths.
#[derive(Clone, Debug, PartialEq, Eq, serde::Serialize, serde::Deserialize)]
pub enum Sched {
    Sorted,
    Reverse,
    /// paths listed earlier are tried earlier; unlisted ones last, in sorted order
    Priority(Vec<String>),
    /// a shuffle that depends on the seed and on the set itself (so it differs per round)
    Seeded(u64),
}

thread_local! {
    pub static SCHED_CALLS: std::cell::Cell<u64> = const { std::cell::Cell::new(0) };
}

fn install_schedule(s: &Sched) {
    let s = s.clone();
    SCHED_CALLS.with(|c| c.set(0));
    pyxis::semantic::verif::set_schedule(Some(Box::new(move |paths: &mut Vec<ItemPath>| {
        SCHED_CALLS.with(|c| c.set(c.get() + 1));
        match &s {
            Sched::Sorted => {}
            Sched::Reverse => paths.reverse(),
            Sched::Priority(p) => {
                paths.sort_by_key(|x| {
                    let xs = x.to_string();
                    p.iter().position(|q| *q == xs).unwrap_or(usize::MAX)
                });
            }
            Sched::Seeded(seed) => {
                use std::hash::{Hash, Hasher};
                let mut h = std::collections::hash_map::DefaultHasher::new();
                seed.hash(&mut h);
                for x in paths.iter() {
                    x.to_string().hash(&mut h);
                }
                let mut mix = crate::tape::Mix(h.finish());
                // Fisher-Yates
                for i in (1..paths.len()).rev() {
                    let j = mix.below(i as u64 + 1) as usize;
                    paths.swap(i, j);
                }
            }
        }
    })));
}

pub struct MemOpts<'a> {
    /// order in which modules are added (indices into `files`); None = given order
    pub order: Option<&'a [usize]>,
    /// write the output files (needs a scratch dir); false = resolve only
    pub emit: bool,
    pub sched: Option<&'a Sched>,
}
impl Default for MemOpts<'_> {
    fn default() -> Self {
        MemOpts {
            order: None,
            emit: true,
            sched: None,
        }
    }
}

/// Same steps as `pyxis::build`, but from memory, with a chosen module order,
/// and keeping the resolved registry for inspection.
pub fn build_mem(files: &[(String, String)], width: usize, opts: &MemOpts) -> Res {
    if let Some(s) = opts.sched {
        install_schedule(s);
    }
    let r = build_mem_inner(files, width, opts);
    if opts.sched.is_some() {
        pyxis::semantic::verif::set_schedule(None);
    }
    r
}

fn build_mem_inner(files: &[(String, String)], width: usize, opts: &MemOpts) -> Res {
    let r = catch(|| -> Result<Built, String> {
        let mut st = SemanticState::new(width);
        let default_order: Vec<usize> = (0..files.len()).collect();
        let order = opts.order.unwrap_or(&default_order);
        for &i in order {
            let (rel, text) = &files[i];
            let m = pyxis::parser::parse_str(text).map_err(|e| {
                let lc = e.span().start();
                format!("failed to parse {}:{}:{}: {e}", rel, lc.line, lc.column + 1)
            })?;
            st.add_module(&m, &mod_path_of_file(rel))
                .map_err(|e| format!("{e:#}"))?;
        }
        let rs = st.build().map_err(|e| format!("{e:#}"))?;
        let mut items = BTreeMap::new();
        for (_k, module) in rs.modules() {
            for p in module.definition_paths() {
                if let Some(d) = rs.type_registry().get(p) {
                    if d.is_predefined() {
                        continue;
                    }
                    let cat = match d.category() {
                        pyxis::semantic::types::ItemCategory::Defined => "defined",
                        pyxis::semantic::types::ItemCategory::Extern => "extern",
                        pyxis::semantic::types::ItemCategory::Predefined => "predefined",
                    };
                    let is_enum = d
                        .resolved()
                        .map(|r| r.inner.as_enum().is_some())
                        .unwrap_or(false);
                    items.insert(
                        p.to_string(),
                        ItemInfo {
                            size: d.size().unwrap_or(usize::MAX),
                            align: d.alignment().unwrap_or(usize::MAX),
                            category: cat,
                            is_enum,
                        },
                    );
                }
            }
        }
        let mut out_files = BTreeMap::new();
        if opts.emit {
            let sc = Scratch::new("mem");
            // deterministic emission order; the order of writing cannot matter
            // for the content of distinct files
            let mut keys: Vec<_> = rs.modules().keys().cloned().collect();
            keys.sort();
            for k in keys {
                let module = &rs.modules()[&k];
                pyxis::backends::rust::write_module(&sc.dir, &k, &rs, module)
                    .map_err(|e| format!("{e:#}"))?;
            }
            out_files = read_tree(&sc.dir);
        }
        Ok(Built {
            files: out_files,
            items,
        })
    });
    match r {
        Err(p) => Res::Panic(p),
        Ok(Err(e)) => Res::Err(e),
        Ok(Ok(b)) => Res::Ok(b),
    }
}

pub fn build_prog(p: &crate::model::Prog, width: usize) -> Res {
    build_mem(&crate::model::print_prog(p), width, &MemOpts::default())
}
