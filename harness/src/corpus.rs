//! Seed inputs: the repository's own .pyxis texts (copied into /verif/corpus so
//! that they survive edits to /repo) and saved finds.

use crate::driver::verif_root;

pub fn repo_texts() -> Vec<String> {
    let mut out = vec![];
    for sub in ["corpus/repo", "corpus/extra"] {
        let dir = verif_root().join(sub);
        let Ok(rd) = std::fs::read_dir(&dir) else { continue };
        let mut paths: Vec<_> = rd.flatten().map(|e| e.path()).collect();
        paths.sort();
        for p in paths {
            if p.extension().map(|e| e == "pyxis").unwrap_or(false) {
                if let Ok(t) = std::fs::read_to_string(&p) {
                    out.push(t);
                }
            }
        }
    }
    out
}
