//! L1: a structured view of an emitted `.rs` file, obtained with `syn`.

use quote::ToTokens;
use std::collections::BTreeMap;
use syn::visit::Visit;

pub fn norm(ts: impl ToTokens) -> String {
    ts.to_token_stream().to_string().split_whitespace().collect::<Vec<_>>().join("")
}

#[derive(Clone, Debug, Default)]
pub struct Attrs {
    pub docs: Vec<String>,
    pub derives: Vec<String>,
    /// items inside #[repr(...)], normalised: "C", "packed", "align(8)", "u32"
    pub repr: Vec<String>,
    pub has_default_attr: bool,
}

fn read_attrs(attrs: &[syn::Attribute]) -> Attrs {
    let mut a = Attrs::default();
    for at in attrs {
        if at.path().is_ident("doc") {
            if let syn::Meta::NameValue(nv) = &at.meta {
                if let syn::Expr::Lit(syn::ExprLit { lit: syn::Lit::Str(s), .. }) = &nv.value {
                    a.docs.push(s.value());
                }
            }
        } else if at.path().is_ident("derive") {
            let _ = at.parse_nested_meta(|m| {
                a.derives.push(norm(&m.path));
                Ok(())
            });
        } else if at.path().is_ident("repr") {
            if let syn::Meta::List(l) = &at.meta {
                let s = l.tokens.to_string();
                for part in s.split(',') {
                    let p: String = part.split_whitespace().collect();
                    if !p.is_empty() {
                        a.repr.push(p);
                    }
                }
            }
        } else if at.path().is_ident("default") {
            a.has_default_attr = true;
        }
    }
    a
}

fn is_pub(v: &syn::Visibility) -> bool {
    matches!(v, syn::Visibility::Public(_))
}

#[derive(Clone, Debug)]
pub struct FieldView {
    pub name: String,
    pub vis: bool,
    pub ty: String,
    pub attrs: Attrs,
    /// ABI strings of every bare fn type inside the field's type
    pub abis: Vec<Option<String>>,
    /// for a fn-pointer field: (argument types, return type), normalised
    pub fn_sig: Option<(Vec<String>, Option<String>)>,
}

#[derive(Clone, Debug)]
pub struct StructView {
    pub name: String,
    pub vis: bool,
    pub attrs: Attrs,
    pub fields: Vec<FieldView>,
    /// position among the file's items
    pub pos: usize,
}

#[derive(Clone, Debug)]
pub struct VariantView {
    pub name: String,
    pub disc: Option<String>,
    pub attrs: Attrs,
}

#[derive(Clone, Debug)]
pub struct EnumView {
    pub name: String,
    pub vis: bool,
    pub attrs: Attrs,
    pub variants: Vec<VariantView>,
    pub pos: usize,
}

#[derive(Clone, Debug)]
pub struct FnView {
    pub name: String,
    pub vis: bool,
    pub is_unsafe: bool,
    pub attrs: Attrs,
    /// "&self" | "&mut self" | none
    pub receiver: Option<String>,
    pub args: Vec<(String, String)>,
    pub ret: Option<String>,
    /// ABI strings of every bare-fn type in the body
    pub body_abis: Vec<Option<String>>,
    /// integer literals in the body, as values
    pub body_ints: Vec<u128>,
    pub body: String,
    pub pos: usize,
}

#[derive(Clone, Debug, Default)]
pub struct FileView {
    pub inner_docs: Vec<String>,
    pub structs: Vec<StructView>,
    pub enums: Vec<EnumView>,
    /// inherent methods: type name -> methods (all impl blocks merged, in order)
    pub methods: BTreeMap<String, Vec<FnView>>,
    /// trait impls: (trait path normalised incl. generics, self type)
    pub trait_impls: Vec<(String, String)>,
    pub free_fns: Vec<FnView>,
    /// (name, position)
    pub consts: Vec<(String, usize)>,
    pub n_items: usize,
    /// every doc string anywhere in the file (items, fields, variants, methods, inner docs)
    pub all_docs: Vec<String>,
}

struct AbiCollector {
    abis: Vec<Option<String>>,
}
impl<'ast> Visit<'ast> for AbiCollector {
    fn visit_type_bare_fn(&mut self, f: &'ast syn::TypeBareFn) {
        self.abis.push(f.abi.as_ref().map(|a| a.name.as_ref().map(|n| n.value()).unwrap_or_else(|| "C".into())));
        syn::visit::visit_type_bare_fn(self, f);
    }
}
struct DocCollector {
    docs: Vec<String>,
}
impl<'ast> Visit<'ast> for DocCollector {
    fn visit_attribute(&mut self, at: &'ast syn::Attribute) {
        if at.path().is_ident("doc") {
            if let syn::Meta::NameValue(nv) = &at.meta {
                if let syn::Expr::Lit(syn::ExprLit { lit: syn::Lit::Str(s), .. }) = &nv.value {
                    self.docs.push(s.value());
                }
            }
        }
    }
}
struct IntCollector {
    ints: Vec<u128>,
}
impl<'ast> Visit<'ast> for IntCollector {
    fn visit_lit_int(&mut self, l: &'ast syn::LitInt) {
        if let Ok(v) = l.base10_parse::<u128>() {
            self.ints.push(v);
        }
    }
}

fn fn_view(vis: &syn::Visibility, attrs: &[syn::Attribute], sig: &syn::Signature, block: &syn::Block, pos: usize) -> FnView {
    let mut receiver = None;
    let mut args = vec![];
    for a in &sig.inputs {
        match a {
            syn::FnArg::Receiver(r) => {
                receiver = Some(if r.mutability.is_some() { "&mut self".to_string() } else { "&self".to_string() });
            }
            syn::FnArg::Typed(p) => args.push((norm(&p.pat), norm(&p.ty))),
        }
    }
    let ret = match &sig.output {
        syn::ReturnType::Default => None,
        syn::ReturnType::Type(_, t) => Some(norm(t)),
    };
    let mut ac = AbiCollector { abis: vec![] };
    ac.visit_block(block);
    let mut ic = IntCollector { ints: vec![] };
    ic.visit_block(block);
    FnView {
        name: sig.ident.to_string(),
        vis: is_pub(vis),
        is_unsafe: sig.unsafety.is_some(),
        attrs: read_attrs(attrs),
        receiver,
        args,
        ret,
        body_abis: ac.abis,
        body_ints: ic.ints,
        body: norm(block),
        pos,
    }
}

pub fn view(src: &str) -> Result<FileView, String> {
    let file = syn::parse_file(src).map_err(|e| {
        let lc = e.span().start();
        format!("output does not parse as Rust at {}:{}: {e}", lc.line, lc.column)
    })?;
    let mut v = FileView {
        inner_docs: read_attrs(&file.attrs).docs,
        n_items: file.items.len(),
        ..Default::default()
    };
    let mut dc = DocCollector { docs: vec![] };
    dc.visit_file(&file);
    v.all_docs = dc.docs;
    for (pos, item) in file.items.iter().enumerate() {
        match item {
            syn::Item::Struct(s) => {
                let mut fields = vec![];
                for f in &s.fields {
                    let mut ac = AbiCollector { abis: vec![] };
                    ac.visit_type(&f.ty);
                    let fn_sig = if let syn::Type::BareFn(bf) = &f.ty {
                        Some((
                            bf.inputs.iter().map(|a| norm(&a.ty)).collect(),
                            match &bf.output {
                                syn::ReturnType::Default => None,
                                syn::ReturnType::Type(_, t) => Some(norm(t)),
                            },
                        ))
                    } else {
                        None
                    };
                    fields.push(FieldView {
                        name: f.ident.as_ref().map(|i| i.to_string()).unwrap_or_default(),
                        vis: is_pub(&f.vis),
                        ty: norm(&f.ty),
                        attrs: read_attrs(&f.attrs),
                        abis: ac.abis,
                        fn_sig,
                    });
                }
                v.structs.push(StructView {
                    name: s.ident.to_string(),
                    vis: is_pub(&s.vis),
                    attrs: read_attrs(&s.attrs),
                    fields,
                    pos,
                });
            }
            syn::Item::Enum(e) => {
                v.enums.push(EnumView {
                    name: e.ident.to_string(),
                    vis: is_pub(&e.vis),
                    attrs: read_attrs(&e.attrs),
                    variants: e
                        .variants
                        .iter()
                        .map(|x| VariantView {
                            name: x.ident.to_string(),
                            disc: x.discriminant.as_ref().map(|(_, e)| norm(e)),
                            attrs: read_attrs(&x.attrs),
                        })
                        .collect(),
                    pos,
                });
            }
            syn::Item::Impl(im) => {
                let self_ty = norm(&im.self_ty);
                if let Some((_, path, _)) = &im.trait_ {
                    v.trait_impls.push((norm(path), self_ty));
                } else {
                    let entry = v.methods.entry(self_ty).or_default();
                    for it in &im.items {
                        if let syn::ImplItem::Fn(f) = it {
                            entry.push(fn_view(&f.vis, &f.attrs, &f.sig, &f.block, pos));
                        }
                    }
                }
            }
            syn::Item::Fn(f) => v.free_fns.push(fn_view(&f.vis, &f.attrs, &f.sig, &f.block, pos)),
            syn::Item::Const(c) => v.consts.push((c.ident.to_string(), pos)),
            _ => {}
        }
    }
    Ok(v)
}

impl FileView {
    pub fn strukt(&self, name: &str) -> Option<&StructView> {
        self.structs.iter().find(|s| s.name == name)
    }
    pub fn enm(&self, name: &str) -> Option<&EnumView> {
        self.enums.iter().find(|s| s.name == name)
    }
    pub fn method(&self, ty: &str, name: &str) -> Option<&FnView> {
        self.methods.get(ty)?.iter().find(|m| m.name == name)
    }
}
