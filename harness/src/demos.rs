//! Hand-written demonstration cases for findings that the generators exclude by construction.
//! `pv write-demos` judges each through the property part named and writes replays/<ID>/<stem>.json
//! with the observed verdict; KNOWN_FINDINGS.txt refers to those files.

use serde_json::{json, Value};

use crate::model::*;

fn ty(name: &str, fields: Vec<Field>) -> TypeDef {
    TypeDef {
        vis: true,
        name: name.into(),
        fields,
        ..Default::default()
    }
}
fn f(name: &str, t: Ty) -> Field {
    Field::new(name, t)
}
fn base(name: &str, t: &str) -> Field {
    let mut x = Field::new(name, Ty::n(t));
    x.base = true;
    x
}
fn func(name: &str, args: Vec<Arg>, ret: Option<Ty>, addr: Option<u64>) -> Func {
    Func {
        more: vec![],
        sty: 0,
        vis: true,
        name: name.into(),
        doc: vec![],
        args,
        ret,
        addr: addr.map(|a| Num::d(a as i128)),
        index: None,
        cc: None,
    }
}
fn module(path: &[&str], items: Vec<Item>) -> Mod {
    Mod {
        path: path.iter().map(|s| s.to_string()).collect(),
        items,
        ..Default::default()
    }
}
fn l2case(prog: Prog, w: u64) -> Value {
    json!({"prog": prog, "w": w})
}

pub struct Demo {
    pub property: &'static str,
    pub stem: &'static str,
    pub prop: &'static str,
    pub case: Value,
}

pub fn demos() -> Vec<Demo> {
    let mut v = vec![];

    // F06 (C09): a signature that mentions a generated <T>Vftable type resolves or not depending on the order
    {
        let mut a = ty("A", vec![]);
        a.vft = Some(Vft {
            size: None,
            funcs: vec![func("vf", vec![Arg::ConstSelf], None, None)],
        });
        let b = ty("B", vec![f("x", Ty::n("u32"))]);
        let mut m = module(&["m"], vec![Item::Type(a), Item::Type(b)]);
        m.impls.push(Impl {
            more: vec![],
            ty: "B".into(),
            funcs: vec![func("g", vec![Arg::ConstSelf, Arg::Named("v".into(), Ty::n("AVftable").cptr())], None, Some(0x1000))],
        });
        v.push(Demo {
            property: "C09",
            stem: "F06-vftable-type-in-signature",
            prop: "C09/schedules",
            case: json!({"prog": Prog { mods: vec![m] }, "w": 4, "seed": 1}),
        });
    }

    // F13 (C13): a packed type embedding a non-packed pyxis struct: E0588
    {
        let inner = ty("Inner", vec![f("a", Ty::n("u32"))]);
        let mut outer = ty("Outer", vec![f("i", Ty::n("Inner")), f("b", Ty::n("u8"))]);
        outer.packed = true;
        v.push(Demo {
            property: "C13",
            stem: "F13-packed-embeds-aligned",
            prop: "C13/type-checks",
            case: l2case(Prog { mods: vec![module(&["m"], vec![Item::Type(inner), Item::Type(outer)])] }, 8),
        });
    }
    // F14 (C13): copyable on a type with a non-copyable member
    {
        let inner = ty("Inner", vec![f("a", Ty::n("u32"))]);
        let mut outer = ty("Outer", vec![f("i", Ty::n("Inner"))]);
        outer.copyable = true;
        v.push(Demo {
            property: "C13",
            stem: "F14-copyable-with-noncopy-member",
            prop: "C13/type-checks",
            case: l2case(Prog { mods: vec![module(&["m"], vec![Item::Type(inner), Item::Type(outer)])] }, 8),
        });
    }
    // F15 (C13): enum without variants
    {
        let e = EnumDef {
            sty: 0,
            vis: true,
            name: "Empty".into(),
            doc: vec![],
            base: "u32".into(),
            variants: vec![],
            singleton: None,
            copyable: false,
            cloneable: false,
            defaultable: false,
        };
        v.push(Demo {
            property: "C13",
            stem: "F15-empty-enum",
            prop: "C13/type-checks",
            case: l2case(Prog { mods: vec![module(&["m"], vec![Item::Enum(e)])] }, 8),
        });
    }
    // F19 (C13/C07): second-level rename clash: <field>_<name> is taken as well
    {
        let a = ty("A", vec![f("x", Ty::n("u32"))]);
        let b = ty("B", vec![base("p", "A"), base("q", "A")]);
        let c = ty("C", vec![base("p", "B"), base("q", "B")]);
        let mut m = module(&["m"], vec![Item::Type(a), Item::Type(b), Item::Type(c)]);
        m.impls.push(Impl {
            more: vec![],
            ty: "A".into(),
            funcs: vec![func("hello", vec![Arg::ConstSelf], None, Some(0x2000))],
        });
        v.push(Demo {
            property: "C13",
            stem: "F19-second-level-rename-clash",
            prop: "C13/type-checks",
            case: l2case(Prog { mods: vec![m] }, 8),
        });
    }
    // F20 (C13): a derived type in another module inherits a private virtual function
    {
        let mut a = ty("A", vec![f("x", Ty::n("u64"))]);
        let mut pf = func("hidden", vec![Arg::ConstSelf], None, None);
        pf.vis = false;
        a.vft = Some(Vft { size: None, funcs: vec![pf] });
        let d = ty("D", vec![base("a", "A")]);
        let m0 = module(&["m0"], vec![Item::Type(a)]);
        let mut m1 = module(&["m1"], vec![Item::Type(d)]);
        m1.uses.push(vec!["m0".into(), "A".into()]);
        v.push(Demo {
            property: "C13",
            stem: "F20-private-vfunc-inherited-across-modules",
            prop: "C13/type-checks",
            case: l2case(Prog { mods: vec![m0, m1] }, 8),
        });
    }
    // F21 (C13): an unnamed zero-sized field and the padding after it get the same generated name
    {
        let mut e = ty("Empty", vec![]);
        e.packed = true;
        let mut second = f("b", Ty::n("u64"));
        second.addr = Some(Num::d(8));
        let t = ty("T", vec![f("a", Ty::n("u32")), f("_", Ty::n("Empty")), second]);
        v.push(Demo {
            property: "C13",
            stem: "F21-unnamed-zero-sized-field-name-clash",
            prop: "C13/type-checks",
            case: l2case(Prog { mods: vec![module(&["m"], vec![Item::Type(e), Item::Type(t)])] }, 8),
        });
    }
    // F23 (C13/C05): a parameter named `f` is shadowed by the wrapper's own `let f`
    {
        let t = ty("T", vec![f("a", Ty::n("u32"))]);
        let mut m = module(&["m"], vec![Item::Type(t)]);
        m.impls.push(Impl {
            more: vec![],
            ty: "T".into(),
            funcs: vec![func("call", vec![Arg::ConstSelf, Arg::Named("f".into(), Ty::n("u32"))], None, Some(0x3000))],
        });
        v.push(Demo {
            property: "C13",
            stem: "F23-parameter-named-f",
            prop: "C13/type-checks",
            case: l2case(Prog { mods: vec![m] }, 8),
        });
    }
    // F24 (C13): a user function named like a generated accessor (`vftable`)
    {
        let mut t = ty("T", vec![f("a", Ty::n("u64"))]);
        t.vft = Some(Vft {
            size: None,
            funcs: vec![func("vf", vec![Arg::ConstSelf], None, None)],
        });
        let mut m = module(&["m"], vec![Item::Type(t)]);
        m.impls.push(Impl {
            more: vec![],
            ty: "T".into(),
            funcs: vec![func("vftable", vec![Arg::ConstSelf], None, Some(0x4000))],
        });
        v.push(Demo {
            property: "C13",
            stem: "F24-user-function-named-vftable",
            prop: "C13/type-checks",
            case: l2case(Prog { mods: vec![m] }, 8),
        });
    }
    // F30 (C13): a virtual function without a receiver: the wrapper needs `self` to find the table
    {
        let mut t = ty("T", vec![f("a", Ty::n("u64"))]);
        t.vft = Some(Vft {
            size: None,
            funcs: vec![func("make", vec![Arg::Named("a".into(), Ty::n("u32"))], None, None)],
        });
        v.push(Demo {
            property: "C13",
            stem: "F30-virtual-function-without-receiver",
            prop: "C13/type-checks",
            case: l2case(Prog { mods: vec![module(&["m"], vec![Item::Type(t)])] }, 8),
        });
    }
    // F32 (C13): a singleton on an enum that is not copyable: get() moves out of a raw pointer
    {
        let e = EnumDef {
            sty: 0,
            vis: true,
            name: "Mode".into(),
            doc: vec![],
            base: "u32".into(),
            variants: vec![Variant {
                sty: 0,
                name: "A".into(),
                value: None,
                default: false,
                doc: vec![],
            }],
            singleton: Some(Num::d(0x1000)),
            copyable: false,
            cloneable: false,
            defaultable: false,
        };
        v.push(Demo {
            property: "C13",
            stem: "F32-enum-singleton-without-copyable",
            prop: "C13/type-checks",
            case: l2case(Prog { mods: vec![module(&["m"], vec![Item::Enum(e)])] }, 8),
        });
    }
    // F25 (C02/C13): a by-value `void` member: resolved size 0, emitted as c_void (size 1)
    {
        let t = ty("T", vec![f("a", Ty::n("u32")), f("v", Ty::n("void")), f("b", Ty::n("u32"))]);
        v.push(Demo {
            property: "C02",
            stem: "F25-void-by-value",
            prop: "C02/size-align",
            case: l2case(Prog { mods: vec![module(&["m"], vec![Item::Type(t)])] }, 8),
        });
    }
    // F26 (C17): a trailing empty doc line is lost
    {
        let mut t = ty("T", vec![f("a", Ty::n("u32"))]);
        t.doc = vec![" pv-doc-1".into(), "".into()];
        v.push(Demo {
            property: "C17",
            stem: "F26-trailing-empty-doc-line",
            prop: "C17/faithful",
            case: l2case(Prog { mods: vec![module(&["m"], vec![Item::Type(t)])] }, 8),
        });
    }
    // F34 (C13): two fields / cases / parameters / virtual functions of one name in one item
    {
        let t = ty("A", vec![f("a", Ty::n("u32")), f("a", Ty::n("u32"))]);
        v.push(Demo {
            property: "C13",
            stem: "F34-duplicate-field",
            prop: "C13/name-clashes",
            case: l2case(Prog { mods: vec![module(&["m"], vec![Item::Type(t)])] }, 8),
        });
        let var = |n: &str| Variant {
            sty: 0,
            name: n.into(),
            value: None,
            default: false,
            doc: vec![],
        };
        let e = EnumDef {
            sty: 0,
            vis: true,
            name: "E".into(),
            doc: vec![],
            base: "u32".into(),
            variants: vec![var("X"), var("X")],
            singleton: None,
            copyable: false,
            cloneable: false,
            defaultable: false,
        };
        v.push(Demo {
            property: "C13",
            stem: "F34-duplicate-case",
            prop: "C13/name-clashes",
            case: l2case(Prog { mods: vec![module(&["m"], vec![Item::Enum(e)])] }, 8),
        });
        let mut t = ty("A", vec![]);
        t.vft = Some(Vft {
            size: None,
            funcs: vec![func("vf", vec![Arg::ConstSelf], None, None), func("vf", vec![Arg::ConstSelf], None, None)],
        });
        v.push(Demo {
            property: "C13",
            stem: "F34-duplicate-virtual-function",
            prop: "C13/name-clashes",
            case: l2case(Prog { mods: vec![module(&["m"], vec![Item::Type(t)])] }, 8),
        });
        let mut m = module(&["m"], vec![Item::Type(ty("A", vec![]))]);
        m.impls.push(Impl {
            more: vec![],
            ty: "A".into(),
            funcs: vec![func("g", vec![Arg::ConstSelf, Arg::Named("a".into(), Ty::n("u32")), Arg::Named("a".into(), Ty::n("u32"))], None, Some(0x10))],
        });
        v.push(Demo {
            property: "C13",
            stem: "F34-duplicate-parameter",
            prop: "C13/name-clashes",
            case: l2case(Prog { mods: vec![m] }, 8),
        });
    }
    // F35 (C14): a.v2.pyxis was written to a.rs, over the output of a.pyxis
    {
        let a = module(&["a"], vec![Item::Type(ty("S", vec![f("x", Ty::n("u32"))]))]);
        let a2 = module(&["a.v2"], vec![Item::Type(ty("T", vec![f("x", Ty::n("u32"))]))]);
        v.push(Demo {
            property: "C14",
            stem: "F35-dotted-file-name",
            prop: "C14/dotted-paths",
            case: l2case(Prog { mods: vec![a, a2] }, 8),
        });
    }
    // F44 (C13): an enum over a type that is not an integer
    {
        let var = |n: &str| Variant {
            sty: 0,
            name: n.into(),
            value: None,
            default: false,
            doc: vec![],
        };
        let en = |name: &str, base: &str| EnumDef {
            sty: 0,
            vis: true,
            name: name.into(),
            doc: vec![],
            base: base.into(),
            variants: vec![var("A"), var("B")],
            singleton: None,
            copyable: false,
            cloneable: false,
            defaultable: false,
        };
        v.push(Demo {
            property: "C13",
            stem: "F44-enum-over-an-enum",
            prop: "C13/name-clashes",
            case: l2case(Prog { mods: vec![module(&["m"], vec![Item::Enum(en("Tag", "u16")), Item::Enum(en("Mode", "Tag"))])] }, 8),
        });
        v.push(Demo {
            property: "C13",
            stem: "F44-enum-over-bool",
            prop: "C13/name-clashes",
            case: l2case(Prog { mods: vec![module(&["m"], vec![Item::Enum(en("Flag", "bool"))])] }, 8),
        });
    }
    v
}
