//! Abstract program model shared by the semantic generators, and its printer
//! to `.pyxis` concrete syntax.  Shares no code with pyxis.

use serde::{Deserialize, Serialize};
use std::fmt::Write;

#[derive(Clone, Debug, PartialEq, Eq, Hash, Serialize, Deserialize)]
pub struct Num {
    pub v: i128,
    /// spelling: 0 decimal, 1 hex upper, 2 hex lower with `_` every 4 digits,
    /// 3 decimal with `_` every 3 digits, 4 octal, 5 binary; plus 6 * k for a type suffix
    /// (k = 1 u64, 2 usize, 3 i64, 4 u32, 5.. isize)
    pub sp: u8,
}
impl Num {
    pub fn d(v: i128) -> Num {
        Num { v, sp: 0 }
    }
    pub fn u(&self) -> u64 {
        self.v as u64
    }
    pub fn print(&self) -> String {
        let neg = self.v < 0;
        let a = self.v.unsigned_abs();
        let body = match self.sp % 6 {
            0 => format!("{a}"),
            1 => format!("0x{a:X}"),
            2 => {
                let h = format!("{a:x}");
                format!("0x{}", group(&h, 4))
            }
            3 => group(&format!("{a}"), 3),
            4 => format!("0o{a:o}"),
            _ => format!("0b{a:b}"),
        };
        // sp / 6 selects a type suffix (literals carry no type in the language: it is ignored)
        let suffix = match self.sp / 6 {
            0 => "",
            1 => "u64",
            2 => "usize",
            3 => "i64",
            4 => "u32",
            _ => "isize",
        };
        if neg {
            format!("-{body}{suffix}")
        } else {
            format!("{body}{suffix}")
        }
    }
}
fn group(digits: &str, n: usize) -> String {
    let mut out = String::new();
    let len = digits.len();
    for (i, c) in digits.chars().enumerate() {
        if i > 0 && (len - i) % n == 0 {
            out.push('_');
        }
        out.push(c);
    }
    out
}

#[derive(Clone, Debug, PartialEq, Eq, Hash, Serialize, Deserialize)]
pub enum Ty {
    Named(String),
    CPtr(Box<Ty>),
    MPtr(Box<Ty>),
    Arr(Box<Ty>, u64),
    Unk(u64),
}
impl Ty {
    pub fn n(s: &str) -> Ty {
        Ty::Named(s.to_string())
    }
    pub fn cptr(self) -> Ty {
        Ty::CPtr(Box::new(self))
    }
    pub fn mptr(self) -> Ty {
        Ty::MPtr(Box::new(self))
    }
    pub fn arr(self, n: u64) -> Ty {
        Ty::Arr(Box::new(self), n)
    }
    pub fn print(&self) -> String {
        match self {
            Ty::Named(s) => s.clone(),
            Ty::CPtr(t) => format!("*const {}", t.print()),
            Ty::MPtr(t) => format!("*mut {}", t.print()),
            Ty::Arr(t, n) => format!("[{}; {}]", t.print(), n),
            Ty::Unk(n) => format!("unknown<{}>", n),
        }
    }
    /// The name at the bottom of the type, if any.
    pub fn leaf(&self) -> Option<&str> {
        match self {
            Ty::Named(s) => Some(s),
            Ty::CPtr(t) | Ty::MPtr(t) | Ty::Arr(t, _) => t.leaf(),
            Ty::Unk(_) => None,
        }
    }
    pub fn is_ptr(&self) -> bool {
        matches!(self, Ty::CPtr(_) | Ty::MPtr(_))
    }
}

#[derive(Clone, Debug, PartialEq, Eq, Hash, Serialize, Deserialize)]
pub struct Field {
    /// printing style: rotates the attribute list / splits it into separate brackets
    #[serde(default)]
    pub sty: u8,
    pub vis: bool,
    /// "_" for an unnamed field
    pub name: String,
    pub ty: Ty,
    pub addr: Option<Num>,
    pub base: bool,
    pub doc: Vec<String>,
}
impl Field {
    pub fn new(name: &str, ty: Ty) -> Field {
        Field {
            sty: 0,
            vis: true,
            name: name.to_string(),
            ty,
            addr: None,
            base: false,
            doc: vec![],
        }
    }
}

#[derive(Clone, Debug, PartialEq, Eq, Hash, Serialize, Deserialize)]
pub enum Arg {
    ConstSelf,
    MutSelf,
    Named(String, Ty),
}

#[derive(Clone, Debug, PartialEq, Eq, Hash, Serialize, Deserialize)]
pub struct Func {
    #[serde(default)]
    pub sty: u8,
    /// further attributes, printed verbatim among the others (a second calling_convention, unknown ones)
    #[serde(default)]
    pub more: Vec<String>,
    pub vis: bool,
    pub name: String,
    pub doc: Vec<String>,
    pub args: Vec<Arg>,
    pub ret: Option<Ty>,
    pub addr: Option<Num>,
    pub index: Option<Num>,
    pub cc: Option<String>,
}
impl Func {
    pub fn has_self(&self) -> bool {
        self.args
            .iter()
            .any(|a| matches!(a, Arg::ConstSelf | Arg::MutSelf))
    }
}

#[derive(Clone, Debug, PartialEq, Eq, Hash, Serialize, Deserialize)]
pub struct Vft {
    pub size: Option<Num>,
    pub funcs: Vec<Func>,
}

#[derive(Clone, Debug, PartialEq, Eq, Hash, Serialize, Deserialize, Default)]
pub struct TypeDef {
    #[serde(default)]
    pub sty: u8,
    pub vis: bool,
    pub name: String,
    pub doc: Vec<String>,
    pub size: Option<Num>,
    pub align: Option<Num>,
    pub packed: bool,
    pub singleton: Option<Num>,
    pub copyable: bool,
    pub cloneable: bool,
    pub defaultable: bool,
    pub vft: Option<Vft>,
    pub fields: Vec<Field>,
}

#[derive(Clone, Debug, PartialEq, Eq, Hash, Serialize, Deserialize)]
pub struct Variant {
    #[serde(default)]
    pub sty: u8,
    pub name: String,
    pub value: Option<Num>,
    pub default: bool,
    pub doc: Vec<String>,
}

#[derive(Clone, Debug, PartialEq, Eq, Hash, Serialize, Deserialize)]
pub struct EnumDef {
    #[serde(default)]
    pub sty: u8,
    pub vis: bool,
    pub name: String,
    pub doc: Vec<String>,
    pub base: String,
    pub variants: Vec<Variant>,
    pub singleton: Option<Num>,
    pub copyable: bool,
    pub cloneable: bool,
    pub defaultable: bool,
}

#[derive(Clone, Debug, PartialEq, Eq, Hash, Serialize, Deserialize)]
pub enum Item {
    Type(TypeDef),
    Enum(EnumDef),
}
impl Item {
    pub fn name(&self) -> &str {
        match self {
            Item::Type(t) => &t.name,
            Item::Enum(e) => &e.name,
        }
    }
    pub fn vis(&self) -> bool {
        match self {
            Item::Type(t) => t.vis,
            Item::Enum(e) => e.vis,
        }
    }
}

#[derive(Clone, Debug, PartialEq, Eq, Hash, Serialize, Deserialize)]
pub struct ExtType {
    pub name: String,
    pub size: Num,
    pub align: Num,
}

#[derive(Clone, Debug, PartialEq, Eq, Hash, Serialize, Deserialize)]
pub struct ExtVal {
    #[serde(default)]
    pub sty: u8,
    pub vis: bool,
    pub name: String,
    pub ty: Ty,
    pub addr: Option<Num>,
    pub doc: Vec<String>,
}

#[derive(Clone, Debug, PartialEq, Eq, Hash, Serialize, Deserialize)]
pub struct Impl {
    /// attributes written on the `impl` block itself (they mean nothing there)
    #[serde(default)]
    pub more: Vec<String>,
    pub ty: String,
    pub funcs: Vec<Func>,
}

#[derive(Clone, Debug, PartialEq, Eq, Hash, Serialize, Deserialize)]
pub struct BackendBlk {
    pub name: String,
    /// 0: `backend x { prologue …; epilogue …; }`, 1: `backend x prologue …;`,
    /// 2: `backend x epilogue …;`, 3: as 0 with the epilogue written first
    pub form: u8,
    pub prologue: Option<String>,
    pub epilogue: Option<String>,
}

#[derive(Clone, Debug, PartialEq, Eq, Hash, Serialize, Deserialize, Default)]
pub struct Mod {
    /// order of the statements in the file: bit 0 extern values first, bit 1 all impl blocks at the end
    /// (instead of after their type), bit 2 `use` lines after the items, bit 3 backend blocks last,
    /// bit 4 extern types after the items, bit 5 impl blocks before their type, bit 6 every other
    /// `use` path written with a leading `::`
    #[serde(default)]
    pub sty: u8,
    /// e.g. ["game", "world"]  ->  game/world.pyxis
    pub path: Vec<String>,
    pub doc: Vec<String>,
    pub uses: Vec<Vec<String>>,
    pub ext_types: Vec<ExtType>,
    pub ext_vals: Vec<ExtVal>,
    pub items: Vec<Item>,
    pub impls: Vec<Impl>,
    pub backends: Vec<BackendBlk>,
}
impl Mod {
    pub fn rel_path(&self) -> String {
        format!("{}.pyxis", self.path.join("/"))
    }
    pub fn out_path(&self) -> String {
        format!("{}.rs", self.path.join("/"))
    }
    pub fn path_str(&self) -> String {
        self.path.join("::")
    }
    pub fn types(&self) -> impl Iterator<Item = &TypeDef> {
        self.items.iter().filter_map(|i| match i {
            Item::Type(t) => Some(t),
            _ => None,
        })
    }
    pub fn enums(&self) -> impl Iterator<Item = &EnumDef> {
        self.items.iter().filter_map(|i| match i {
            Item::Enum(t) => Some(t),
            _ => None,
        })
    }
}

#[derive(Clone, Debug, PartialEq, Eq, Hash, Serialize, Deserialize, Default)]
pub struct Prog {
    pub mods: Vec<Mod>,
}

// ---------------------------------------------------------------- printer

/// Print the doc lines and the attribute list of one item.
/// `sty & 0x3f` rotates the attribute list; bit 7 prints one bracket per attribute instead of
/// one bracket for all; bit 6 changes where the doc lines go: instead of all before the
/// attributes they are interleaved with the brackets (attribute bracket k is placed before doc
/// line `(k*3 + rot) % (lines+1)`, so "all docs after the attributes", "attributes in the
/// middle of a doc comment" and "a bracket between every two doc lines" all occur). The order
/// of the doc lines among themselves is always the source order.
fn head(out: &mut String, ind: &str, doc: &[String], mut attrs: Vec<String>, sty: u8) {
    let rot = (sty & 0x3f) as usize;
    if !attrs.is_empty() {
        let n = attrs.len();
        attrs.rotate_left(rot % n);
    }
    let brackets: Vec<String> = if attrs.is_empty() {
        vec![]
    } else if sty & 0x80 != 0 {
        attrs.iter().map(|a| format!("{ind}#[{a}]")).collect()
    } else {
        vec![format!("{ind}#[{}]", attrs.join(", "))]
    };
    if sty & 0x40 == 0 || brackets.is_empty() {
        for l in doc {
            let _ = writeln!(out, "{ind}///{l}");
        }
        for b in brackets {
            let _ = writeln!(out, "{b}");
        }
        return;
    }
    // interleave
    let slots = doc.len() + 1;
    let mut at: Vec<Vec<&String>> = vec![vec![]; slots];
    for (k, b) in brackets.iter().enumerate() {
        // rot 0 puts the first bracket before the first doc line
        let pos = (rot + k * 3) % slots;
        at[pos].push(b);
    }
    for i in 0..slots {
        for b in &at[i] {
            let _ = writeln!(out, "{b}");
        }
        if i < doc.len() {
            let _ = writeln!(out, "{ind}///{}", doc[i]);
        }
    }
}

pub fn print_func(out: &mut String, ind: &str, f: &Func) {
    let mut attrs = vec![];
    if let Some(i) = &f.index {
        attrs.push(format!("index({})", i.print()));
    }
    if let Some(a) = &f.addr {
        attrs.push(format!("address({})", a.print()));
    }
    if let Some(c) = &f.cc {
        attrs.push(format!("calling_convention({:?})", c));
    }
    // `more` attributes keep their place relative to the declared convention: "<" in front means before it
    for a in &f.more {
        match a.strip_prefix('<') {
            Some(a) => {
                let pos = attrs.iter().position(|x| x.starts_with("calling_convention")).unwrap_or(0);
                attrs.insert(pos, a.to_string());
            }
            None => attrs.push(a.clone()),
        }
    }
    head(out, ind, &f.doc, attrs, f.sty);
    let args: Vec<String> = f
        .args
        .iter()
        .map(|a| match a {
            Arg::ConstSelf => "&self".to_string(),
            Arg::MutSelf => "&mut self".to_string(),
            Arg::Named(n, t) => format!("{n}: {}", t.print()),
        })
        .collect();
    let _ = write!(
        out,
        "{ind}{}fn {}({})",
        if f.vis { "pub " } else { "" },
        f.name,
        args.join(", ")
    );
    if let Some(r) = &f.ret {
        let _ = write!(out, " -> {}", r.print());
    }
    let _ = writeln!(out, ";");
}

pub fn print_type(out: &mut String, t: &TypeDef) {
    let mut attrs = vec![];
    if let Some(s) = &t.size {
        attrs.push(format!("size({})", s.print()));
    }
    if let Some(s) = &t.align {
        attrs.push(format!("align({})", s.print()));
    }
    if t.packed {
        attrs.push("packed".into());
    }
    if let Some(s) = &t.singleton {
        attrs.push(format!("singleton({})", s.print()));
    }
    if t.copyable {
        attrs.push("copyable".into());
    }
    if t.cloneable {
        attrs.push("cloneable".into());
    }
    if t.defaultable {
        attrs.push("defaultable".into());
    }
    head(out, "", &t.doc, attrs, t.sty);
    // style bit 4: a type without fields and without a vftable block in its body-less form
    if t.fields.is_empty() && t.vft.is_none() && t.sty & 0x10 != 0 {
        let _ = writeln!(out, "{}type {};", if t.vis { "pub " } else { "" }, t.name);
        return;
    }
    let _ = writeln!(out, "{}type {} {{", if t.vis { "pub " } else { "" }, t.name);
    if let Some(v) = &t.vft {
        if let Some(s) = &v.size {
            let _ = writeln!(out, "    #[size({})]", s.print());
        }
        let _ = writeln!(out, "    vftable {{");
        for f in &v.funcs {
            print_func(out, "        ", f);
        }
        let _ = writeln!(out, "    }},");
    }
    for f in &t.fields {
        let mut attrs = vec![];
        if f.base {
            attrs.push("base".to_string());
        }
        if let Some(a) = &f.addr {
            attrs.push(format!("address({})", a.print()));
        }
        head(out, "    ", &f.doc, attrs, f.sty);
        let _ = writeln!(
            out,
            "    {}{}: {},",
            if f.vis { "pub " } else { "" },
            f.name,
            f.ty.print()
        );
    }
    let _ = writeln!(out, "}}");
}

pub fn print_enum(out: &mut String, e: &EnumDef) {
    let mut attrs = vec![];
    if let Some(s) = &e.singleton {
        attrs.push(format!("singleton({})", s.print()));
    }
    if e.copyable {
        attrs.push("copyable".to_string());
    }
    if e.cloneable {
        attrs.push("cloneable".into());
    }
    if e.defaultable {
        attrs.push("defaultable".into());
    }
    head(out, "", &e.doc, attrs, e.sty);
    let _ = writeln!(
        out,
        "{}enum {}: {} {{",
        if e.vis { "pub " } else { "" },
        e.name,
        e.base
    );
    for v in &e.variants {
        let attrs = if v.default { vec!["default".to_string()] } else { vec![] };
        head(out, "    ", &v.doc, attrs, v.sty);
        match &v.value {
            Some(n) => {
                let _ = writeln!(out, "    {} = {},", v.name, n.print());
            }
            None => {
                let _ = writeln!(out, "    {},", v.name);
            }
        }
    }
    let _ = writeln!(out, "}}");
}

fn raw_str(s: &str) -> String {
    // pick a raw-string fence that does not occur in the text
    let mut n = 1;
    loop {
        let fence = "#".repeat(n);
        if !s.contains(&format!("\"{fence}")) {
            return format!("r{fence}\"\n{s}\n\"{fence}");
        }
        n += 1;
    }
}

pub fn print_mod(m: &Mod) -> String {
    let mut docs = String::new();
    for l in &m.doc {
        let _ = writeln!(docs, "//!{l}");
    }
    let mut uses = String::new();
    for (k, u) in m.uses.iter().enumerate() {
        // style bit 6: every other import is written with a leading `::`
        let lead = if m.sty & 64 != 0 && k % 2 == 0 { "::" } else { "" };
        let _ = writeln!(uses, "use {lead}{};", u.join("::"));
    }
    let mut ext_types = String::new();
    for e in &m.ext_types {
        let _ = writeln!(ext_types, "#[size({}), align({})]\nextern type {};", e.size.print(), e.align.print(), e.name);
    }
    let mut backends = String::new();
    for b in &m.backends {
        let out = &mut backends;
        match b.form {
            1 => {
                let _ = writeln!(out, "backend {} prologue {};", b.name, raw_str(b.prologue.as_deref().unwrap_or("")));
            }
            2 => {
                let _ = writeln!(out, "backend {} epilogue {};", b.name, raw_str(b.epilogue.as_deref().unwrap_or("")));
            }
            f => {
                let _ = writeln!(out, "backend {} {{", b.name);
                // form 3: the braced block lists the epilogue before the prologue
                if f == 3 {
                    if let Some(p) = &b.epilogue {
                        let _ = writeln!(out, "    epilogue {};", raw_str(p));
                    }
                }
                if let Some(p) = &b.prologue {
                    let _ = writeln!(out, "    prologue {};", raw_str(p));
                }
                if f != 3 {
                    if let Some(p) = &b.epilogue {
                        let _ = writeln!(out, "    epilogue {};", raw_str(p));
                    }
                }
                let _ = writeln!(out, "}}");
            }
        }
    }
    let print_impl = |out: &mut String, im: &Impl| {
        if !im.more.is_empty() {
            let _ = writeln!(out, "#[{}]", im.more.join(", "));
        }
        let _ = writeln!(out, "impl {} {{", im.ty);
        for f in &im.funcs {
            print_func(out, "    ", f);
        }
        let _ = writeln!(out, "}}");
    };
    let impls_last = m.sty & 2 != 0;
    let impls_first = m.sty & 32 != 0 && !impls_last;
    let mut items = String::new();
    for it in &m.items {
        if impls_first {
            for im in m.impls.iter().filter(|i| i.ty == it.name()) {
                print_impl(&mut items, im);
            }
        }
        match it {
            Item::Type(t) => print_type(&mut items, t),
            Item::Enum(e) => print_enum(&mut items, e),
        }
        if !impls_last && !impls_first {
            for im in m.impls.iter().filter(|i| i.ty == it.name()) {
                print_impl(&mut items, im);
            }
        }
    }
    let mut tail_impls = String::new();
    for im in &m.impls {
        // at the end: impls for names that are not items of this module (rejection cases), or all of them
        if impls_last || !m.items.iter().any(|i| i.name() == im.ty) {
            print_impl(&mut tail_impls, im);
        }
    }
    let mut ext_vals = String::new();
    for ev in &m.ext_vals {
        let attrs = ev.addr.iter().map(|a| format!("address({})", a.print())).collect();
        head(&mut ext_vals, "", &ev.doc, attrs, ev.sty);
        let _ = writeln!(ext_vals, "{}extern {}: {};", if ev.vis { "pub " } else { "" }, ev.name, ev.ty.print());
    }
    // inner docs must come first; everything else may stand in any order
    let mut out = docs;
    if m.sty & 1 != 0 {
        out.push_str(&ext_vals);
    }
    if m.sty & 4 == 0 {
        out.push_str(&uses);
    }
    if m.sty & 16 == 0 {
        out.push_str(&ext_types);
    }
    if m.sty & 8 == 0 {
        out.push_str(&backends);
    }
    out.push_str(&items);
    out.push_str(&tail_impls);
    if m.sty & 16 != 0 {
        out.push_str(&ext_types);
    }
    if m.sty & 4 != 0 {
        out.push_str(&uses);
    }
    if m.sty & 1 == 0 {
        out.push_str(&ext_vals);
    }
    if m.sty & 8 != 0 {
        out.push_str(&backends);
    }
    out
}

pub fn print_prog(p: &Prog) -> Vec<(String, String)> {
    p.mods.iter().map(|m| (m.rel_path(), print_mod(m))).collect()
}

pub fn prog_text(p: &Prog) -> String {
    let mut s = String::new();
    for (path, text) in print_prog(p) {
        let _ = writeln!(s, "// ---- {path}\n{text}");
    }
    s
}

// ---------------------------------------------------------------- structural shrinking

/// Every program that differs from `p` by one deletion or simplification (used by the second shrinking stage).
fn ppush(out: &mut Vec<Prog>, p: &Prog, f: &dyn Fn(&mut Prog)) {
    let mut q = p.clone();
    f(&mut q);
    if q != *p {
        out.push(q);
    }
}
fn tpush(out: &mut Vec<Prog>, p: &Prog, mi: usize, ii: usize, f: &dyn Fn(&mut TypeDef)) {
    let mut q = p.clone();
    if let Item::Type(td) = &mut q.mods[mi].items[ii] {
        f(td);
    }
    if q != *p {
        out.push(q);
    }
}

/// keep only the bits in `mask` of every printing style in the program
fn reset_sty(q: &mut Prog, mask: u8) {
    let f = |fs: &mut Vec<Func>| fs.iter_mut().for_each(|f| f.sty &= mask);
    for m in &mut q.mods {
        m.sty &= mask & 0x7f;
        if mask == 0 {
            m.sty = 0;
        }
        for it in &mut m.items {
            match it {
                Item::Type(t) => {
                    t.sty &= mask;
                    t.fields.iter_mut().for_each(|x| x.sty &= mask);
                    if let Some(v) = &mut t.vft {
                        f(&mut v.funcs);
                    }
                }
                Item::Enum(e) => {
                    e.sty &= mask;
                    e.variants.iter_mut().for_each(|x| x.sty &= mask);
                }
            }
        }
        m.impls.iter_mut().for_each(|im| f(&mut im.funcs));
        m.ext_vals.iter_mut().for_each(|x| x.sty &= mask);
    }
}

pub fn prog_candidates(p: &Prog) -> Vec<Prog> {
    let mut out: Vec<Prog> = vec![];
    // whole modules (and imports that mention them)
    if p.mods.len() > 1 {
        for mi in 0..p.mods.len() {
            ppush(&mut out, p, &|q: &mut Prog| {
                let path = q.mods[mi].path.clone();
                q.mods.remove(mi);
                for m in q.mods.iter_mut() {
                    m.uses.retain(|u| *u != path && u[..u.len().saturating_sub(1)] != path[..]);
                }
            });
        }
    }
    ppush(&mut out, p, &|q: &mut Prog| reset_sty(q, 0x00));
    ppush(&mut out, p, &|q: &mut Prog| reset_sty(q, 0xc0));
    for mi in 0..p.mods.len() {
        let m = &p.mods[mi];
        for ii in (0..m.items.len()).rev() {
            ppush(&mut out, p, &|q: &mut Prog| {
                let name = q.mods[mi].items[ii].name().to_string();
                q.mods[mi].items.remove(ii);
                q.mods[mi].impls.retain(|im| im.ty != name);
            });
        }
        for k in (0..m.impls.len()).rev() {
            ppush(&mut out, p, &|q: &mut Prog| {
                q.mods[mi].impls.remove(k);
            });
            for fi in (0..m.impls[k].funcs.len()).rev() {
                ppush(&mut out, p, &|q: &mut Prog| {
                    q.mods[mi].impls[k].funcs.remove(fi);
                });
                for ai in (0..m.impls[k].funcs[fi].args.len()).rev() {
                    ppush(&mut out, p, &|q: &mut Prog| {
                        q.mods[mi].impls[k].funcs[fi].args.remove(ai);
                    });
                }
                ppush(&mut out, p, &|q: &mut Prog| q.mods[mi].impls[k].funcs[fi].ret = None);
                ppush(&mut out, p, &|q: &mut Prog| q.mods[mi].impls[k].funcs[fi].cc = None);
                ppush(&mut out, p, &|q: &mut Prog| q.mods[mi].impls[k].funcs[fi].doc.clear());
            }
        }
        for k in (0..m.ext_vals.len()).rev() {
            ppush(&mut out, p, &|q: &mut Prog| {
                q.mods[mi].ext_vals.remove(k);
            });
        }
        for k in (0..m.ext_types.len()).rev() {
            ppush(&mut out, p, &|q: &mut Prog| {
                q.mods[mi].ext_types.remove(k);
            });
        }
        for k in (0..m.backends.len()).rev() {
            ppush(&mut out, p, &|q: &mut Prog| {
                q.mods[mi].backends.remove(k);
            });
        }
        for k in (0..m.uses.len()).rev() {
            ppush(&mut out, p, &|q: &mut Prog| {
                q.mods[mi].uses.remove(k);
            });
        }
        ppush(&mut out, p, &|q: &mut Prog| q.mods[mi].doc.clear());
        for ii in 0..m.items.len() {
            match &m.items[ii] {
                Item::Type(t) => {
                    for fi in (0..t.fields.len()).rev() {
                        tpush(&mut out, p, mi, ii, &|td: &mut TypeDef| {
                            td.fields.remove(fi);
                        });
                        tpush(&mut out, p, mi, ii, &|td: &mut TypeDef| td.fields[fi].addr = None);
                        tpush(&mut out, p, mi, ii, &|td: &mut TypeDef| td.fields[fi].doc.clear());
                        tpush(&mut out, p, mi, ii, &|td: &mut TypeDef| td.fields[fi].base = false);
                        tpush(&mut out, p, mi, ii, &|td: &mut TypeDef| td.fields[fi].ty = Ty::n("u8"));
                    }
                    if let Some(v) = &t.vft {
                        tpush(&mut out, p, mi, ii, &|td: &mut TypeDef| td.vft = None);
                        for fi in (0..v.funcs.len()).rev() {
                            tpush(&mut out, p, mi, ii, &|td: &mut TypeDef| {
                                td.vft.as_mut().unwrap().funcs.remove(fi);
                            });
                            tpush(&mut out, p, mi, ii, &|td: &mut TypeDef| td.vft.as_mut().unwrap().funcs[fi].index = None);
                            tpush(&mut out, p, mi, ii, &|td: &mut TypeDef| td.vft.as_mut().unwrap().funcs[fi].doc.clear());
                            tpush(&mut out, p, mi, ii, &|td: &mut TypeDef| td.vft.as_mut().unwrap().funcs[fi].cc = None);
                            tpush(&mut out, p, mi, ii, &|td: &mut TypeDef| td.vft.as_mut().unwrap().funcs[fi].ret = None);
                            for ai in (1..v.funcs[fi].args.len()).rev() {
                                tpush(&mut out, p, mi, ii, &|td: &mut TypeDef| {
                                    td.vft.as_mut().unwrap().funcs[fi].args.remove(ai);
                                });
                            }
                        }
                        tpush(&mut out, p, mi, ii, &|td: &mut TypeDef| td.vft.as_mut().unwrap().size = None);
                    }
                    tpush(&mut out, p, mi, ii, &|td: &mut TypeDef| td.size = None);
                    tpush(&mut out, p, mi, ii, &|td: &mut TypeDef| td.align = None);
                    tpush(&mut out, p, mi, ii, &|td: &mut TypeDef| td.singleton = None);
                    tpush(&mut out, p, mi, ii, &|td: &mut TypeDef| td.doc.clear());
                    tpush(&mut out, p, mi, ii, &|td: &mut TypeDef| {
                        td.copyable = false;
                        td.cloneable = false;
                        td.defaultable = false;
                    });
                    tpush(&mut out, p, mi, ii, &|td: &mut TypeDef| td.packed = false);
                    tpush(&mut out, p, mi, ii, &|td: &mut TypeDef| td.sty = 0);
                }
                Item::Enum(e) => {
                    for vi in (0..e.variants.len()).rev() {
                        if e.variants.len() > 1 {
                            ppush(&mut out, p, &|q: &mut Prog| {
                                if let Item::Enum(en) = &mut q.mods[mi].items[ii] {
                                    en.variants.remove(vi);
                                }
                            });
                        }
                    }
                    ppush(&mut out, p, &|q: &mut Prog| {
                        if let Item::Enum(en) = &mut q.mods[mi].items[ii] {
                            en.doc.clear();
                            en.singleton = None;
                        }
                    });
                }
            }
        }
    }
    out
}


// ---------------------------------------------------------------- shapes

/// What the generator produced, as classes for the evidence (only the rarer shapes).
pub fn shape_classes(p: &Prog) -> Vec<String> {
    let mut v = std::collections::BTreeSet::new();
    let mut names: Vec<&str> = vec![];
    let is_comment_edge = |s: &str| {
        let t = s.trim();
        t.starts_with("//") || t.starts_with("/*") || t.ends_with("*/") || t.lines().last().map(|l| l.contains("//")).unwrap_or(false)
    };
    let mut doc_shapes = |doc: &[String], sty: u8, v: &mut std::collections::BTreeSet<&'static str>| {
        if !doc.is_empty() && sty & 0x40 != 0 {
            v.insert("shape:docs-interleaved-with-attributes");
        }
        if doc.iter().any(|l| crate::genprog::MD_DOC_LINES.contains(&l.as_str())) {
            v.insert("shape:markdown-doc-line");
        }
    };
    for m in &p.mods {
        for b in &m.backends {
            if b.name == "rust" && (b.prologue.as_deref().map(is_comment_edge).unwrap_or(false) || b.epilogue.as_deref().map(is_comment_edge).unwrap_or(false)) {
                v.insert("shape:backend-text-with-comment-at-an-edge");
            }
        }
        if m.backends.iter().enumerate().any(|(i, b)| m.backends[..i].contains(b)) {
            v.insert("shape:repeated-backend-block");
        }
        if m.sty != 0 {
            v.insert("shape:statements-in-another-order");
        }
        for it in &m.items {
            match it {
                Item::Type(t) => {
                    names.push(&t.name);
                    doc_shapes(&t.doc, t.sty, &mut v);
                    for (i, f) in t.fields.iter().enumerate() {
                        doc_shapes(&f.doc, f.sty, &mut v);
                        if f.name == "vftable" || f.name.starts_with("_field_") {
                            v.insert("shape:member-named-like-a-generated-field");
                        }
                        if f.base && t.fields.iter().position(|x| x.base) == Some(i) && (i > 0 || f.addr.as_ref().map(|a| a.v != 0).unwrap_or(false)) {
                            v.insert("shape:first-base-not-at-offset-0");
                        }
                    }
                    if let Some(vt) = &t.vft {
                        for f in &vt.funcs {
                            doc_shapes(&f.doc, f.sty, &mut v);
                        }
                    }
                }
                Item::Enum(e) => {
                    doc_shapes(&e.doc, e.sty, &mut v);
                    for x in &e.variants {
                        doc_shapes(&x.doc, x.sty, &mut v);
                    }
                }
            }
        }
        for im in &m.impls {
            for f in &im.funcs {
                doc_shapes(&f.doc, f.sty, &mut v);
            }
        }
    }
    let mut sorted = names.clone();
    sorted.sort();
    if sorted.windows(2).any(|w| w[0] == w[1]) {
        v.insert("shape:same-short-type-name-in-two-modules");
    }
    v.into_iter().map(|s| s.to_string()).collect()
}
