//! Generic property driver: proptest-generated choice tapes -> cases -> judged
//! in parallel -> first failure shrunk with proptest's ValueTree -> replay file.
//! Also the evidence recorder.

use std::collections::{BTreeMap, HashSet};
use std::hash::{Hash, Hasher};
use std::time::Instant;

use proptest::strategy::{Strategy, ValueTree};
use proptest::test_runner::{Config, RngSeed, TestRunner};
use rayon::prelude::*;
use serde::{de::DeserializeOwned, Serialize};
use serde_json::{json, Value};

use crate::tape::Tape;

#[derive(Clone, Copy, PartialEq, Eq, Debug)]
pub enum Tier {
    Quick,
    Thorough,
}
impl Tier {
    pub fn name(&self) -> &'static str {
        match self {
            Tier::Quick => "quick",
            Tier::Thorough => "thorough",
        }
    }
}

#[derive(Clone, Debug)]
pub enum Verdict {
    Pass,
    /// case is outside the property's domain (counted, not judged)
    Discard(String),
    /// (kind, detail): kind is a short stable label used to decide "same failure" while shrinking
    Fail(String, String),
}

#[derive(Clone, Debug)]
pub struct Outcome {
    pub verdict: Verdict,
    pub nontrivial: bool,
    pub classes: Vec<String>,
}
impl Outcome {
    pub fn pass(nontrivial: bool) -> Outcome {
        Outcome {
            verdict: Verdict::Pass,
            nontrivial,
            classes: vec![],
        }
    }
    pub fn discard(why: &str) -> Outcome {
        Outcome {
            verdict: Verdict::Discard(why.to_string()),
            nontrivial: false,
            classes: vec![],
        }
    }
    pub fn fail(kind: &str, detail: String) -> Outcome {
        Outcome {
            verdict: Verdict::Fail(kind.to_string(), detail),
            nontrivial: true,
            classes: vec![],
        }
    }
    pub fn with_classes(mut self, c: Vec<String>) -> Outcome {
        self.classes = c;
        self
    }
    pub fn class(mut self, c: &str) -> Outcome {
        self.classes.push(c.to_string());
        self
    }
    pub fn is_fail(&self) -> bool {
        matches!(self.verdict, Verdict::Fail(..))
    }
}

pub trait Prop: Sync {
    type Case: Serialize + DeserializeOwned + Send + Sync + Clone;
    fn name(&self) -> String;
    /// how cases are generated and what makes one non-trivial
    fn rule(&self) -> String;
    fn gen(&self, t: &mut Tape) -> Self::Case;
    fn judge(&self, c: &Self::Case) -> Outcome;
    /// canonical text used to count distinct cases
    fn key(&self, c: &Self::Case) -> String {
        serde_json::to_string(c).unwrap_or_default()
    }
    /// human-readable rendering for samples / replay files
    fn show(&self, c: &Self::Case) -> Value {
        serde_json::to_value(c).unwrap_or(Value::Null)
    }
    /// Some(iterator) when the sub-space is enumerated completely instead of sampled.
    fn enumerate(&self) -> Option<Box<dyn Iterator<Item = Self::Case> + '_>> {
        None
    }
    /// Fixed regression / demonstration cases judged before the generated ones.
    fn fixed_cases(&self) -> Vec<Self::Case> {
        vec![]
    }
    /// Second shrinking stage (after the tape): structurally smaller variants of a failing case, each
    /// differing by one deletion/simplification. Tried greedily; a variant is kept when it fails the same way.
    fn shrink_candidates(&self, _c: &Self::Case) -> Vec<Self::Case> {
        vec![]
    }
    /// Classes that describe the generated case itself (what the generator produced), counted for
    /// passing cases next to the classes the judge reports.
    fn shape(&self, _c: &Self::Case) -> Vec<String> {
        vec![]
    }
}

/// proc-macro2 (with span locations, which pyxis needs for line/column in its errors) keeps the text of
/// everything parsed on a thread in a thread-local source map that only ever grows: tens of gigabytes over
/// a thorough run of C09, which builds each program hundreds of times. A judge keeps no spans beyond its
/// own return and does not yield to other judges on its thread, so the map can be emptied between cases.
pub fn release_parser_memory() {
    proc_macro2::extra::invalidate_current_thread_spans();
}

fn judge_counted<P: Prop>(p: &P, c: &P::Case) -> Outcome {
    let o = judge_counted_inner(p, c);
    release_parser_memory();
    o
}

fn judge_counted_inner<P: Prop>(p: &P, c: &P::Case) -> Outcome {
    let mut o = p.judge(c);
    // debugging aid (never set by the registered commands): turn discards whose reason contains the
    // given text into failures, so that one is shrunk and saved
    if let Verdict::Discard(why) = &o.verdict {
        if let Ok(pat) = std::env::var("PV_DEBUG_FAIL_ON_DISCARD") {
            if !pat.is_empty() && why.contains(&pat) {
                o.verdict = Verdict::Fail("debug-discard".into(), why.clone());
            }
        }
    }
    if matches!(o.verdict, Verdict::Pass) {
        o.classes.extend(p.shape(c));
    }
    o
}

#[derive(Clone, Debug)]
pub struct Params {
    pub cases: usize,
    pub tape_min: usize,
    pub tape_max: usize,
    pub shrink_steps: usize,
}
impl Params {
    pub fn new(cases: usize, tape_min: usize, tape_max: usize) -> Params {
        Params {
            cases,
            tape_min,
            tape_max,
            shrink_steps: 400,
        }
    }
    pub fn shrink(mut self, n: usize) -> Params {
        self.shrink_steps = n;
        self
    }
}

#[derive(Clone, Debug)]
pub struct Violation {
    pub prop: String,
    pub kind: String,
    pub detail: String,
    pub replay_path: String,
}

pub struct PartStats {
    pub name: String,
    pub rule: String,
    pub evaluations: u64,
    pub nontrivial_evals: u64,
    pub distinct_nontrivial: u64,
    pub discards: BTreeMap<String, u64>,
    pub classes: BTreeMap<String, u64>,
    pub exhaustive: bool,
    pub samples: Vec<Value>,
    pub wall_s: f64,
}

pub struct Ctx {
    pub property_id: String,
    pub tier: Tier,
    pub seed: u64,
    pub parts: Vec<PartStats>,
    pub known_findings: Vec<String>,
    pub notes: Vec<String>,
    pub extra: BTreeMap<String, Value>,
    pub violations: Vec<Violation>,
    pub started: Instant,
    /// distinct nontrivial keys over all parts
    distinct: HashSet<u64>,
}

fn hash_str(s: &str) -> u64 {
    let mut h = std::collections::hash_map::DefaultHasher::new();
    s.hash(&mut h);
    h.finish()
}

static THOROUGH: std::sync::atomic::AtomicBool = std::sync::atomic::AtomicBool::new(false);
pub fn set_thorough(b: bool) {
    THOROUGH.store(b, std::sync::atomic::Ordering::Relaxed);
}
/// Size multiplier for generated programs: 1 in the quick tier, 3 in the thorough tier (bigger programs, not only more).
pub fn scale() -> u64 {
    if THOROUGH.load(std::sync::atomic::Ordering::Relaxed) {
        3
    } else {
        1
    }
}

pub fn verif_root() -> std::path::PathBuf {
    std::env::var("PV_ROOT")
        .map(std::path::PathBuf::from)
        .unwrap_or_else(|_| std::path::PathBuf::from("/verif"))
}

impl Ctx {
    pub fn new(property_id: &str, tier: Tier, seed: u64) -> Ctx {
        Ctx {
            property_id: property_id.to_string(),
            tier,
            seed,
            parts: vec![],
            known_findings: vec![],
            notes: vec![],
            extra: BTreeMap::new(),
            violations: vec![],
            started: Instant::now(),
            distinct: HashSet::new(),
        }
    }

    pub fn quick(&self) -> bool {
        self.tier == Tier::Quick
    }

    /// cases for quick / thorough
    pub fn n(&self, quick: usize, thorough: usize) -> usize {
        if self.quick() {
            quick
        } else {
            thorough
        }
    }

    fn write_replay<P: Prop>(&self, p: &P, case: &P::Case, kind: &str, detail: &str, tape: Option<&[u32]>) -> String {
        let dir = verif_root().join("replays").join(&self.property_id);
        let _ = std::fs::create_dir_all(&dir);
        let body = json!({
            "property": self.property_id,
            "prop": p.name(),
            "kind": kind,
            "detail": detail,
            "seed": self.seed,
            "tier": self.tier.name(),
            "shown": p.show(case),
            "case": serde_json::to_value(case).unwrap_or(Value::Null),
            "tape": tape,
        });
        let text = serde_json::to_string_pretty(&body).unwrap();
        let h = hash_str(&serde_json::to_string(&body["case"]).unwrap_or_default());
        let path = dir.join(format!("violation-{:016x}.json", h));
        let _ = std::fs::write(&path, text);
        path.to_string_lossy().to_string()
    }

    /// Run one property part. Returns true when it held on everything explored.
    pub fn run<P: Prop>(&mut self, p: &P, params: &Params) -> bool {
        // debugging aid: PV_ONLY_PART=<text> runs only the parts whose name contains the text
        if let Ok(only) = std::env::var("PV_ONLY_PART") {
            if !only.is_empty() && !p.name().contains(&only) {
                return true;
            }
        }
        let t0 = Instant::now();
        let mut st = PartStats {
            name: p.name(),
            rule: p.rule(),
            evaluations: 0,
            nontrivial_evals: 0,
            distinct_nontrivial: 0,
            discards: BTreeMap::new(),
            classes: BTreeMap::new(),
            exhaustive: false,
            samples: vec![],
            wall_s: 0.0,
        };
        let mut local_distinct: HashSet<u64> = HashSet::new();
        let mut failure: Option<(P::Case, String, String, Option<Vec<u32>>)> = None;

        // absorb one judged case into the stats; returns Some(kind, detail) on failure
        let mut absorb = |st: &mut PartStats, case: &P::Case, o: &Outcome, distinct: &mut HashSet<u64>| -> Option<(String, String)> {
            match &o.verdict {
                Verdict::Discard(why) => {
                    *st.discards.entry(why.clone()).or_insert(0) += 1;
                    None
                }
                Verdict::Pass | Verdict::Fail(..) => {
                    st.evaluations += 1;
                    for c in &o.classes {
                        *st.classes.entry(c.clone()).or_insert(0) += 1;
                    }
                    if o.nontrivial {
                        st.nontrivial_evals += 1;
                        let h = hash_str(&p.key(case));
                        if local_distinct.insert(h) {
                            st.distinct_nontrivial += 1;
                            let take = st.samples.len() < 3
                                || (st.samples.len() < 5 && st.distinct_nontrivial % 97 == 0);
                            if take {
                                st.samples.push(p.show(case));
                            }
                        }
                        distinct.insert(h ^ hash_str(&st.name));
                    }
                    if let Verdict::Fail(k, d) = &o.verdict {
                        Some((k.clone(), d.clone()))
                    } else {
                        None
                    }
                }
            }
        };

        // 1. fixed cases
        for case in p.fixed_cases() {
            let o = judge_counted(p, &case);
            if let Some((k, d)) = absorb(&mut st, &case, &o, &mut self.distinct) {
                failure = Some((case, k, d, None));
                break;
            }
        }

        // 2. enumerated sub-space
        if failure.is_none() {
            if let Some(it) = p.enumerate() {
                st.exhaustive = true;
                let mut it = it;
                loop {
                    let chunk: Vec<P::Case> = it.by_ref().take(8192).collect();
                    if chunk.is_empty() {
                        break;
                    }
                    let outs: Vec<Outcome> = chunk.par_iter().map(|c| judge_counted(p, c)).collect();
                    for (c, o) in chunk.iter().zip(outs.iter()) {
                        if let Some((k, d)) = absorb(&mut st, c, o, &mut self.distinct) {
                            failure = Some((c.clone(), k, d, None));
                            break;
                        }
                    }
                    if failure.is_some() {
                        st.exhaustive = false;
                        break;
                    }
                }
            }
        }

        // 3. generated cases
        if failure.is_none() && params.cases > 0 {
            let mut cfg = Config::default();
            cfg.rng_seed = RngSeed::Fixed(self.seed ^ hash_str(&p.name()));
            cfg.failure_persistence = None;
            cfg.cases = params.cases as u32;
            let mut runner = TestRunner::new(cfg);
            let strat = proptest::collection::vec(proptest::num::u32::ANY, params.tape_min..=params.tape_max);
            let chunk_size = 512usize;
            let mut done = 0usize;
            'outer: while done < params.cases {
                let n = chunk_size.min(params.cases - done);
                let mut trees = Vec::with_capacity(n);
                for _ in 0..n {
                    trees.push(strat.new_tree(&mut runner).expect("tape strategy"));
                }
                let tapes: Vec<Vec<u32>> = trees.iter().map(|t| t.current()).collect();
                let cases: Vec<P::Case> = tapes
                    .par_iter()
                    .map(|tp| {
                        let mut t = Tape::new(tp);
                        p.gen(&mut t)
                    })
                    .collect();
                let outs: Vec<Outcome> = cases.par_iter().map(|c| judge_counted(p, c)).collect();
                for (i, (c, o)) in cases.iter().zip(outs.iter()).enumerate() {
                    if let Some((k, _d)) = absorb(&mut st, c, o, &mut self.distinct) {
                        // shrink with proptest's value tree
                        let mut tree = trees.swap_remove(i);
                        let steps = if std::env::var("PV_NO_SHRINK").map(|v| !v.is_empty()).unwrap_or(false) { 0 } else { params.shrink_steps };
                        let (bc, bk, bd, bt) = shrink(p, &mut tree, &k, steps);
                        let (bc, bd) = if steps > 0 { shrink_structurally(p, bc, &bk, bd, params.shrink_steps * 25) } else { (bc, bd) };
                        failure = Some((bc, bk, bd, Some(bt)));
                        break 'outer;
                    }
                }
                done += n;
            }
        }

        st.wall_s = t0.elapsed().as_secs_f64();
        let ok = failure.is_none();
        if let Some((case, kind, detail, tape)) = failure {
            let path = self.write_replay(p, &case, &kind, &detail, tape.as_deref());
            eprintln!("--- failing case ({}) kind={kind}\n{detail}\n{}", p.name(), serde_json::to_string_pretty(&p.show(&case)).unwrap_or_default());
            self.violations.push(Violation {
                prop: p.name(),
                kind,
                detail,
                replay_path: path,
            });
        }
        self.parts.push(st);
        ok
    }

    pub fn evidence_json(&self) -> Value {
        let evaluations: u64 = self.parts.iter().map(|p| p.evaluations).sum();
        let distinct: u64 = self.parts.iter().map(|p| p.distinct_nontrivial).sum();
        let mut samples = vec![];
        for p in &self.parts {
            for s in p.samples.iter().take(2) {
                samples.push(json!({"part": p.name, "case": s}));
            }
        }
        let rule = self
            .parts
            .iter()
            .map(|p| format!("[{}] {}", p.name, p.rule))
            .collect::<Vec<_>>()
            .join(" || ");
        let parts: Vec<Value> = self
            .parts
            .iter()
            .map(|p| {
                json!({
                    "name": p.name,
                    "evaluations": p.evaluations,
                    "nontrivial_evaluations": p.nontrivial_evals,
                    "distinct_nontrivial": p.distinct_nontrivial,
                    "discarded": p.discards,
                    "classes": p.classes,
                    "exhaustive": p.exhaustive,
                    "wall_s": (p.wall_s * 1000.0).round() / 1000.0,
                })
            })
            .collect();
        let exhaustive_all = !self.parts.is_empty() && self.parts.iter().all(|p| p.exhaustive);
        let mut coverage = json!({
            "evaluations": evaluations,
            "distinct_nontrivial": distinct,
            "rule": rule,
            "samples": samples,
            "parts": parts,
            "exhaustive": exhaustive_all,
            "known_findings_seen": self.known_findings,
            "notes": self.notes,
        });
        for (k, v) in &self.extra {
            coverage[k] = v.clone();
        }
        json!({
            "property_id": self.property_id,
            "tier": self.tier.name(),
            "seed": self.seed,
            "level": "exploration",
            "coverage": coverage,
            "assumptions": [
                "rustc (stable for the host, nightly for i686-pc-windows-msvc) is the layout oracle where L2 is used",
                "the reference model in harness/src/refmodel.rs is written from the property statements; disagreements on the unchanged tree were triaged by hand (DESIGN.md §7)",
                "generated-input search: no absence claim beyond sub-spaces marked exhaustive",
            ],
            "wall_s": (self.started.elapsed().as_secs_f64() * 1000.0).round() / 1000.0,
            "violations": self.violations.len(),
        })
    }

    pub fn write_evidence(&self) {
        // PV_EVIDENCE_DIR: runs against deliberately broken trees (tools/try_mutant.sh) must not overwrite
        // the evidence of the unchanged tree
        let dir = std::env::var("PV_EVIDENCE_DIR").map(std::path::PathBuf::from).unwrap_or_else(|_| verif_root().join("evidence"));
        let _ = std::fs::create_dir_all(&dir);
        let path = dir.join(format!("{}.json", self.property_id));
        let _ = std::fs::write(
            path,
            serde_json::to_string_pretty(&self.evidence_json()).unwrap(),
        );
    }
}

/// Each shrinking stage also stops after a wall-clock allowance (PV_SHRINK_SECS, default 240 s): a case
/// that fails by running into the CPU limit costs 20 s per re-evaluation, and a violation that is already
/// established must be reported rather than lost to the watchdog. The allowance only decides how small
/// the saved replay is, never the verdict.
fn shrink_deadline() -> std::time::Instant {
    let secs = std::env::var("PV_SHRINK_SECS").ok().and_then(|s| s.parse::<u64>().ok()).unwrap_or(240);
    std::time::Instant::now() + std::time::Duration::from_secs(secs)
}

fn shrink<P: Prop, T: ValueTree<Value = Vec<u32>>>(
    p: &P,
    tree: &mut T,
    kind: &str,
    max_steps: usize,
) -> (P::Case, String, String, Vec<u32>) {
    let eval = |tape: &Vec<u32>| -> (P::Case, Option<(String, String)>) {
        let mut t = Tape::new(tape);
        let c = p.gen(&mut t);
        let o = p.judge(&c);
        release_parser_memory();
        let f = match o.verdict {
            Verdict::Fail(k, d) if k == kind => Some((k, d)),
            _ => None,
        };
        (c, f)
    };
    let tape0 = tree.current();
    let (c0, f0) = eval(&tape0);
    let (mut best_case, mut best_fail, mut best_tape) = (
        c0,
        f0.unwrap_or((kind.to_string(), "(failure did not reproduce on re-evaluation)".into())),
        tape0,
    );
    let mut steps = 0;
    let deadline = shrink_deadline();
    if tree.simplify() {
        loop {
            if steps >= max_steps || std::time::Instant::now() > deadline {
                break;
            }
            steps += 1;
            let tape = tree.current();
            let (c, f) = eval(&tape);
            match f {
                Some(fl) => {
                    best_case = c;
                    best_fail = fl;
                    best_tape = tape;
                    if !tree.simplify() {
                        break;
                    }
                }
                None => {
                    if !tree.complicate() {
                        break;
                    }
                }
            }
        }
    }
    (best_case, best_fail.0, best_fail.1, best_tape)
}

/// Greedy delta debugging on the case itself: keep any one-step smaller variant that still fails with `kind`.
fn shrink_structurally<P: Prop>(p: &P, mut best: P::Case, kind: &str, mut detail: String, budget: usize) -> (P::Case, String) {
    let mut spent = 0;
    let mut start = 0usize;
    let mut adopted_in_pass = false;
    let deadline = shrink_deadline();
    loop {
        let cands = p.shrink_candidates(&best);
        if cands.is_empty() || std::time::Instant::now() > deadline {
            break;
        }
        if start >= cands.len() {
            if !adopted_in_pass {
                break;
            }
            start = 0;
            adopted_in_pass = false;
            continue;
        }
        // judge the next candidates in parallel, adopt the first (in order) that still fails the same way,
        // then go on from the same position in the new candidate list
        let end = (start + 16).min(cands.len());
        if spent >= budget {
            break;
        }
        spent += end - start;
        let outs: Vec<Outcome> = cands[start..end]
            .par_iter()
            .map(|c| {
                let o = p.judge(c);
                release_parser_memory();
                o
            })
            .collect();
        let mut adopted = None;
        for (k, o) in outs.into_iter().enumerate() {
            if let Verdict::Fail(kd, d) = o.verdict {
                if kd == kind {
                    adopted = Some((k, d));
                    break;
                }
            }
        }
        match adopted {
            Some((k, d)) => {
                best = cands[start + k].clone();
                detail = d;
                start += k;
                adopted_in_pass = true;
            }
            None => start = end,
        }
    }
    (best, detail)
}

/// Object-safe view used by the registry (run + replay).
pub trait DynProp: Sync {
    fn dyn_name(&self) -> String;
    fn dyn_run(&self, ctx: &mut Ctx, params: &Params) -> bool;
    fn dyn_replay(&self, case: &Value) -> Result<Outcome, String>;
}
impl<P: Prop> DynProp for P {
    fn dyn_name(&self) -> String {
        self.name()
    }
    fn dyn_run(&self, ctx: &mut Ctx, params: &Params) -> bool {
        ctx.run(self, params)
    }
    fn dyn_replay(&self, case: &Value) -> Result<Outcome, String> {
        let c: P::Case = serde_json::from_value(case.clone()).map_err(|e| format!("cannot decode case: {e}"))?;
        Ok(self.judge(&c))
    }
}

/// `shrink_candidates` for any case type with a `prog: Prog` field.
#[macro_export]
macro_rules! prog_shrink {
    () => {
        fn shrink_candidates(&self, c: &Self::Case) -> Vec<Self::Case> {
            $crate::model::prog_candidates(&c.prog)
                .into_iter()
                .map(|p| {
                    let mut n = c.clone();
                    n.prog = p;
                    n
                })
                .collect()
        }
        fn shape(&self, c: &Self::Case) -> Vec<String> {
            $crate::model::shape_classes(&c.prog)
        }
    };
}
