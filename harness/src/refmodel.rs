//! Reference semantics written from the property statements (binding, sizes,
//! layout, realisability, vftable slots).  Shares no code with pyxis.

use std::collections::BTreeMap;

use crate::model::*;

pub const BUILTINS: &[(&str, u64)] = &[
    ("void", 0),
    ("bool", 1),
    ("u8", 1),
    ("u16", 2),
    ("u32", 4),
    ("u64", 8),
    ("u128", 16),
    ("i8", 1),
    ("i16", 2),
    ("i32", 4),
    ("i64", 8),
    ("i128", 16),
    ("f32", 4),
    ("f64", 8),
];
pub const INT_TYPES: &[&str] = &["u8", "u16", "u32", "u64", "u128", "i8", "i16", "i32", "i64", "i128"];

pub fn builtin_size(name: &str) -> Option<u64> {
    BUILTINS.iter().find(|(n, _)| *n == name).map(|(_, s)| *s)
}

#[derive(Clone, Debug, PartialEq, Eq, PartialOrd, Ord, Hash)]
pub enum Bind {
    Builtin(String),
    /// module index, item index
    Item(usize, usize),
    /// module index, extern type index
    Ext(usize, usize),
}

#[derive(Clone, Debug, PartialEq, Eq)]
pub enum Stuck {
    /// a name does not bind
    Undefined(String),
    /// on a by-value cycle
    Cycle,
    /// depends by value on a stuck type
    Dep,
}

#[derive(Clone, Debug, PartialEq, Eq)]
pub enum Reject {
    Overlap,
    Misaligned,
    SizeTooSmall,
    SizeNotMultiple,
    AlignTooSmall,
    AlignNotPow2,
    PackedAndAlign,
    Overflow,
    NegativeNumber,
    VftableNotFirst,
}

#[derive(Clone, Debug, PartialEq, Eq)]
pub struct FieldLay {
    pub offset: u64,
    pub size: u64,
    pub align: u64,
    /// zero-length array regions produce no field
    pub emitted: bool,
}

#[derive(Clone, Debug, PartialEq, Eq)]
pub struct Layout {
    pub size: u64,
    pub align: u64,
    /// a vftable pointer field of its own at offset 0
    pub owns_vptr: bool,
    /// has a vftable (own pointer or through the first base)
    pub has_vft: bool,
    pub fields: Vec<FieldLay>,
    /// number of emitted regions (vptr, gaps > 0, non-dropped fields, tail padding)
    pub regions: usize,
    pub reject: Option<Reject>,
}

#[derive(Clone, Debug)]
pub enum TyRes {
    Ok { size: u64, align: u64 },
    Stuck(Stuck),
    /// a by-value dependency is rejected (the build fails anyway)
    Rejected,
}

pub struct Model<'a> {
    pub prog: &'a Prog,
    pub w: u64,
    memo: BTreeMap<(usize, usize), Result<Layout, Stuck>>,
    visiting: Vec<(usize, usize)>,
}

pub fn is_pow2(x: u64) -> bool {
    x != 0 && x & (x - 1) == 0
}

impl<'a> Model<'a> {
    pub fn new(prog: &'a Prog, w: u64) -> Model<'a> {
        Model {
            prog,
            w,
            memo: BTreeMap::new(),
            visiting: vec![],
        }
    }

    pub fn mod_index(&self, path: &[String]) -> Option<usize> {
        self.prog.mods.iter().position(|m| m.path == path)
    }

    fn lookup_in(&self, mi: usize, name: &str) -> Option<Bind> {
        let m = &self.prog.mods[mi];
        // a later declaration of the same name replaces an earlier one in pyxis's registry; the
        // generators never produce duplicates outside the collision checks
        if let Some(i) = m.items.iter().rposition(|it| it.name() == name) {
            return Some(Bind::Item(mi, i));
        }
        if let Some(i) = m.ext_types.iter().rposition(|e| e.name == name) {
            return Some(Bind::Ext(mi, i));
        }
        None
    }

    /// What does a `use` path denote: a type (module path + name) or a module?
    fn use_as_type(&self, u: &[String]) -> Option<Bind> {
        if u.is_empty() {
            return None;
        }
        let (name, modp) = u.split_last().unwrap();
        let mi = self.mod_index(modp)?;
        self.lookup_in(mi, name)
    }

    /// C11: by-name import (last wins) > built-in > same module > imported modules in order.
    pub fn bind(&self, mi: usize, name: &str) -> Option<Bind> {
        let m = &self.prog.mods[mi];
        for u in m.uses.iter().rev() {
            if u.last().map(|s| s.as_str()) == Some(name) {
                if let Some(b) = self.use_as_type(u) {
                    return Some(b);
                }
            }
        }
        if builtin_size(name).is_some() {
            return Some(Bind::Builtin(name.to_string()));
        }
        if let Some(b) = self.lookup_in(mi, name) {
            return Some(b);
        }
        for u in &m.uses {
            if self.use_as_type(u).is_some() {
                continue;
            }
            if let Some(ui) = self.mod_index(u) {
                if let Some(b) = self.lookup_in(ui, name) {
                    return Some(b);
                }
            }
        }
        None
    }

    /// fully qualified path of a binding ("a::b::T" or "u32")
    pub fn bind_path(&self, b: &Bind) -> String {
        match b {
            Bind::Builtin(n) => n.clone(),
            Bind::Item(m, i) => format!("{}::{}", self.prog.mods[*m].path_str(), self.prog.mods[*m].items[*i].name()),
            Bind::Ext(m, i) => format!("{}::{}", self.prog.mods[*m].path_str(), self.prog.mods[*m].ext_types[*i].name),
        }
    }

    /// The normalised Rust spelling pyxis is expected to emit for a reference to this type.
    pub fn rust_ty(&self, mi: usize, t: &Ty) -> Option<String> {
        Some(match t {
            Ty::Named(n) => match self.bind(mi, n)? {
                Bind::Builtin(b) if b == "void" => "::std::ffi::c_void".to_string(),
                Bind::Builtin(b) => b,
                other => format!("crate::{}", self.bind_path(&other)),
            },
            Ty::CPtr(t) => format!("*const{}", self.rust_ty(mi, t)?),
            Ty::MPtr(t) => format!("*mut{}", self.rust_ty(mi, t)?),
            Ty::Arr(t, n) => format!("[{};{}]", self.rust_ty(mi, t)?, n),
            Ty::Unk(n) => format!("[u8;{n}]"),
        })
    }

    /// Valid Rust source for a reference to this type from inside the crate.
    pub fn rust_ty_src(&self, mi: usize, t: &Ty) -> Option<String> {
        Some(match t {
            Ty::Named(n) => match self.bind(mi, n)? {
                Bind::Builtin(b) if b == "void" => "::core::ffi::c_void".to_string(),
                Bind::Builtin(b) => b,
                other => format!("crate::{}", self.bind_path(&other)),
            },
            Ty::CPtr(t) => format!("*const {}", self.rust_ty_src(mi, t)?),
            Ty::MPtr(t) => format!("*mut {}", self.rust_ty_src(mi, t)?),
            Ty::Arr(t, n) => format!("[{}; {}]", self.rust_ty_src(mi, t)?, n),
            Ty::Unk(n) => format!("[u8; {n}]"),
        })
    }

    /// Does every name in the type bind (pointers included)?
    pub fn names_bind(&self, mi: usize, t: &Ty) -> Result<(), String> {
        match t.leaf() {
            None => Ok(()),
            Some(n) => {
                if self.bind(mi, n).is_some() {
                    Ok(())
                } else {
                    Err(n.to_string())
                }
            }
        }
    }

    pub fn ty_info(&mut self, mi: usize, t: &Ty) -> TyRes {
        match t {
            Ty::Unk(n) => TyRes::Ok { size: *n, align: 1 },
            Ty::CPtr(_) | Ty::MPtr(_) => match self.names_bind(mi, t) {
                Ok(()) => TyRes::Ok {
                    size: self.w,
                    align: self.w,
                },
                Err(n) => TyRes::Stuck(Stuck::Undefined(n)),
            },
            Ty::Arr(e, n) => match self.ty_info(mi, e) {
                TyRes::Ok { size, align } => match size.checked_mul(*n) {
                    Some(s) => TyRes::Ok { size: s, align },
                    None => TyRes::Rejected,
                },
                other => other,
            },
            Ty::Named(n) => match self.bind(mi, n) {
                None => TyRes::Stuck(Stuck::Undefined(n.clone())),
                Some(Bind::Builtin(b)) => {
                    let s = builtin_size(&b).unwrap();
                    TyRes::Ok {
                        size: s,
                        align: s.max(1),
                    }
                }
                Some(Bind::Ext(m, i)) => {
                    let e = &self.prog.mods[m].ext_types[i];
                    TyRes::Ok {
                        size: e.size.u(),
                        align: e.align.u(),
                    }
                }
                Some(Bind::Item(m, i)) => match self.item_info(m, i) {
                    Ok((size, align, rej)) => {
                        if rej {
                            TyRes::Rejected
                        } else {
                            TyRes::Ok { size, align }
                        }
                    }
                    Err(s) => TyRes::Stuck(match s {
                        Stuck::Cycle => Stuck::Cycle,
                        _ => Stuck::Dep,
                    }),
                },
            },
        }
    }

    /// (size, align, rejected)
    pub fn item_info(&mut self, m: usize, i: usize) -> Result<(u64, u64, bool), Stuck> {
        match &self.prog.mods[m].items[i] {
            Item::Enum(e) => {
                let base = Ty::Named(e.base.clone());
                if self.visiting.contains(&(m, i)) {
                    return Err(Stuck::Cycle);
                }
                self.visiting.push((m, i));
                let r = self.ty_info(m, &base);
                self.visiting.pop();
                match r {
                    TyRes::Ok { size, align } => Ok((size, align, false)),
                    TyRes::Rejected => Ok((0, 1, true)),
                    TyRes::Stuck(s) => Err(s),
                }
            }
            Item::Type(_) => {
                let l = self.layout(m, i)?;
                Ok((l.size, l.align, l.reject.is_some()))
            }
        }
    }

    /// Does the type (m,i) have a vftable (own block, or inherited through the first base)?
    pub fn has_vftable(&mut self, m: usize, i: usize) -> bool {
        self.layout(m, i).map(|l| l.has_vft).unwrap_or(false)
    }

    pub fn first_base(&self, m: usize, i: usize) -> Option<(usize, Bind)> {
        let Item::Type(t) = &self.prog.mods[m].items[i] else { return None };
        let (fi, f) = t.fields.iter().enumerate().find(|(_, f)| f.base)?;
        match &f.ty {
            Ty::Named(n) => self.bind(m, n).map(|b| (fi, b)),
            _ => None,
        }
    }

    pub fn layout(&mut self, m: usize, i: usize) -> Result<Layout, Stuck> {
        if let Some(r) = self.memo.get(&(m, i)) {
            return r.clone();
        }
        if self.visiting.contains(&(m, i)) {
            return Err(Stuck::Cycle);
        }
        self.visiting.push((m, i));
        let r = self.layout_inner(m, i);
        self.visiting.pop();
        // a cycle verdict found while some outer type is being visited is final for this type too
        self.memo.insert((m, i), r.clone());
        r
    }

    fn layout_inner(&mut self, m: usize, i: usize) -> Result<Layout, Stuck> {
        let Item::Type(t) = self.prog.mods[m].items[i].clone() else {
            unreachable!("layout of an enum")
        };
        let w = self.w;
        let mut reject: Option<Reject> = None;
        let mut set = |r: Reject, reject: &mut Option<Reject>| {
            if reject.is_none() {
                *reject = Some(r);
            }
        };

        // field type infos first (stuckness dominates)
        let mut infos = vec![];
        let mut stuck: Option<Stuck> = None;
        for f in &t.fields {
            match self.ty_info(m, &f.ty) {
                TyRes::Ok { size, align } => infos.push((size, align)),
                TyRes::Rejected => {
                    set(Reject::Overflow, &mut reject);
                    infos.push((0, 1));
                }
                TyRes::Stuck(s) => {
                    if stuck.is_none() || matches!(s, Stuck::Cycle) {
                        stuck = Some(s);
                    }
                    infos.push((0, 1));
                }
            }
        }
        if let Some(s) = stuck {
            return Err(s);
        }

        // vftable pointer
        let first_base_has_vft = match self.first_base(m, i) {
            Some((_, Bind::Item(bm, bi))) => matches!(self.prog.mods[bm].items[bi], Item::Type(_)) && self.has_vftable(bm, bi),
            _ => false,
        };
        let owns_vptr = t.vft.is_some() && !first_base_has_vft;
        let has_vft = t.vft.is_some() || first_base_has_vft;

        let mut cursor: u128 = 0;
        let mut regions = 0usize;
        let mut max_align: u64 = 1;
        if owns_vptr {
            cursor = w as u128;
            regions += 1;
            max_align = max_align.max(w);
        }
        let mut fields = vec![];
        for (f, (size, align)) in t.fields.iter().zip(infos.iter()) {
            let mut offset = cursor;
            if let Some(a) = &f.addr {
                if a.v < 0 {
                    set(Reject::NegativeNumber, &mut reject);
                } else {
                    let a = a.v as u128;
                    if a < cursor {
                        set(Reject::Overlap, &mut reject);
                    } else {
                        if a > cursor {
                            regions += 1;
                        }
                        offset = a;
                    }
                }
            }
            let dropped = *size == 0 && matches!(f.ty, Ty::Arr(..) | Ty::Unk(_));
            if !dropped {
                regions += 1;
                if !t.packed && (offset % (*align).max(1) as u128) != 0 {
                    set(Reject::Misaligned, &mut reject);
                }
                max_align = max_align.max(*align);
            }
            fields.push(FieldLay {
                offset: offset.min(u64::MAX as u128) as u64,
                size: *size,
                align: *align,
                emitted: !dropped,
            });
            cursor = offset + *size as u128;
        }
        if cursor > u64::MAX as u128 {
            set(Reject::Overflow, &mut reject);
        }
        let mut size = cursor;
        if let Some(s) = &t.size {
            if s.v < 0 {
                set(Reject::NegativeNumber, &mut reject);
            } else {
                let s = s.v as u128;
                if s < cursor {
                    set(Reject::SizeTooSmall, &mut reject);
                } else {
                    if s > cursor {
                        regions += 1;
                    }
                    size = s;
                }
            }
        }
        let align: u64;
        if t.packed {
            if t.align.is_some() {
                set(Reject::PackedAndAlign, &mut reject);
            }
            align = 1;
        } else {
            let a = match &t.align {
                Some(a) if a.v < 0 => {
                    set(Reject::NegativeNumber, &mut reject);
                    1
                }
                Some(a) => a.v.min(u64::MAX as i128) as u64,
                None => {
                    if regions == 1 {
                        max_align
                    } else {
                        w
                    }
                }
            };
            if a == 0 || !is_pow2(a) {
                set(Reject::AlignNotPow2, &mut reject);
            } else {
                if a < max_align {
                    set(Reject::AlignTooSmall, &mut reject);
                }
                if size % a as u128 != 0 {
                    set(Reject::SizeNotMultiple, &mut reject);
                }
            }
            align = a.max(1);
        }
        Ok(Layout {
            size: size.min(u64::MAX as u128) as u64,
            align,
            owns_vptr,
            has_vft,
            fields,
            regions,
            reject,
        })
    }
}

// ------------------------------------------------------------ vftable slots

#[derive(Clone, Debug, PartialEq, Eq)]
pub struct Slots {
    /// slot index of each declared function
    pub slot: Vec<u64>,
    /// total number of slots in the table
    pub len: u64,
    /// a declared index/size contradicts the positions
    pub contradiction: bool,
}

pub fn vft_slots(v: &Vft) -> Slots {
    let mut next: i128 = 0;
    let mut slot = vec![];
    let mut contradiction = false;
    for f in &v.funcs {
        let s = match &f.index {
            Some(ix) => {
                if ix.v < next {
                    contradiction = true;
                    next
                } else {
                    ix.v
                }
            }
            None => next,
        };
        slot.push(s as u64);
        next = s + 1;
    }
    let mut len = next;
    if let Some(sz) = &v.size {
        if sz.v < next {
            contradiction = true;
        } else {
            len = sz.v;
        }
    }
    Slots {
        slot,
        len: len as u64,
        contradiction,
    }
}

// ------------------------------------------------------------ method surface

#[derive(Clone, Debug, PartialEq, Eq)]
pub enum Origin {
    /// declared in the type's own impl block: calls `addr`
    Own,
    /// wrapper for a slot of the type's vftable (own or through the first base)
    Vfunc { slot: u64 },
    /// re-exposed from a base sub-object: forwards to `self.<field>.<orig>(..)`
    Forward { field: String, orig: String },
}

#[derive(Clone, Debug)]
pub struct Method {
    pub name: String,
    pub func: Func,
    pub origin: Origin,
    /// module in whose scope the signature's type names are to be read
    pub scope_mod: usize,
}

#[derive(Clone, Debug, Default)]
pub struct Surface {
    /// vftable wrappers first, then associated functions, in emission order
    pub vfuncs: Vec<Method>,
    pub assoc: Vec<Method>,
    /// an own impl function clashes with an inherited / vftable name: pyxis rejects
    pub clash: bool,
}

impl<'a> Model<'a> {
    /// The effective vftable of a struct: (declared functions, slots, module of the declaring type, owner type path)
    pub fn effective_vft(&mut self, m: usize, i: usize) -> Option<(Vft, usize, (usize, usize))> {
        let Item::Type(td) = &self.prog.mods[m].items[i] else { return None };
        if let Some(v) = &td.vft {
            return Some((v.clone(), m, (m, i)));
        }
        match self.first_base(m, i) {
            Some((_, Bind::Item(bm, bi))) => self.effective_vft(bm, bi),
            _ => None,
        }
    }

    pub fn surface(&mut self, m: usize, i: usize) -> Surface {
        let Item::Type(td) = self.prog.mods[m].items[i].clone() else { return Surface::default() };
        let mut s = Surface::default();
        let mut used: Vec<String> = vec![];
        if let Some((v, vm, _)) = self.effective_vft(m, i) {
            let slots = vft_slots(&v);
            for (f, slot) in v.funcs.iter().zip(slots.slot.iter()) {
                used.push(f.name.clone());
                s.vfuncs.push(Method {
                    name: f.name.clone(),
                    func: f.clone(),
                    origin: Origin::Vfunc { slot: *slot },
                    scope_mod: if td.vft.is_some() { m } else { vm },
                });
            }
        }
        let mut base_no = 0;
        for f in td.fields.iter().filter(|f| f.base) {
            let Ty::Named(n) = &f.ty else { continue };
            let (bm, bi) = match self.bind(m, n) {
                Some(Bind::Item(bm, bi)) => (bm, bi),
                Some(Bind::Ext(..)) => {
                    // a base of extern type brings no functions, but it counts as a base: what follows it is
                    // not the first base any more
                    base_no += 1;
                    continue;
                }
                _ => continue,
            };
            if !matches!(self.prog.mods[bm].items[bi], Item::Type(_)) {
                continue;
            }
            let bs = self.surface(bm, bi);
            let mut add = |meth: &Method, used: &mut Vec<String>, out: &mut Vec<Method>| {
                if !meth.func.vis {
                    return;
                }
                let mut name = meth.name.clone();
                if used.contains(&name) {
                    name = format!("{}_{}", f.name, meth.name);
                }
                used.push(name.clone());
                let has_self = meth.func.has_self();
                out.push(Method {
                    name,
                    func: meth.func.clone(),
                    // a function without a receiver cannot be forwarded through `self`: it keeps its body
                    origin: if has_self { Origin::Forward { field: f.name.clone(), orig: meth.name.clone() } } else { meth.origin.clone() },
                    scope_mod: meth.scope_mod,
                });
            };
            for meth in &bs.assoc {
                add(meth, &mut used, &mut s.assoc);
            }
            if base_no > 0 {
                for meth in &bs.vfuncs {
                    add(meth, &mut used, &mut s.assoc);
                }
            }
            base_no += 1;
        }
        for im in self.prog.mods[m].impls.iter().filter(|im| im.ty == td.name) {
            for f in &im.funcs {
                if used.contains(&f.name) {
                    s.clash = true;
                }
                used.push(f.name.clone());
                s.assoc.push(Method {
                    name: f.name.clone(),
                    func: f.clone(),
                    origin: Origin::Own,
                    scope_mod: m,
                });
            }
        }
        s
    }

    /// Expected calling convention string of a function.
    pub fn expected_cc(f: &Func) -> String {
        match &f.cc {
            Some(c) => c.clone(),
            None => {
                if f.has_self() {
                    "thiscall".into()
                } else {
                    "system".into()
                }
            }
        }
    }
}
