//! The rich program generator: multi-module programs that are accepted by
//! construction (verified by the reference model), drawn from a choice tape.

use std::collections::{BTreeMap, BTreeSet};

use crate::model::*;
use crate::refmodel::*;
use crate::tape::Tape;

#[derive(Clone, Debug)]
pub struct GenCfg {
    pub w: u64,
    pub max_mods: u64,
    pub max_items: u64,
    pub max_fields: u64,
    pub nested_dirs: bool,
    pub enums: bool,
    pub externs: bool,
    pub vfts: bool,
    pub bases: bool,
    pub impls: bool,
    pub ext_vals: bool,
    pub singletons: bool,
    pub backends: bool,
    pub docs: bool,
    pub markers: bool,
    pub packed: bool,
    pub vis_random: bool,
    pub ccs: bool,
    /// only integer / pointer parameter and return types (what the L3 recorder can observe)
    pub int_args_only: bool,
    /// addresses that can be mapped on the host, one page each
    pub mappable_addrs: bool,
    pub max_gap: u64,
    /// number spellings are randomised
    pub spellings: bool,
    /// allow a packed type to embed a non-packed struct / extern by value (E0588, finding F13)
    pub allow_packed_embed: bool,
    /// request copyable/cloneable only when the by-value members allow the derive (finding F14)
    pub sound_derives: bool,
    /// parameter names that collide with wrapper-internal bindings
    pub hazard_names: bool,
    /// a type without a vftable-carrying base declares a vftable block with probability vft_num/4
    pub vft_num: u64,
    /// a type takes bases with probability base_num/3
    pub base_num: u64,
    /// virtual functions without a receiver (their wrappers do not compile: finding F30; L0/L1 checks only)
    pub static_vfuncs: bool,
    /// function names drawn from a small shared pool now and then, so that names clash between bases,
    /// between base and derived, and between vftable and impl functions
    pub shared_names: bool,
    /// n > 0: one program in n gets one or two name-clash perturbations after generation (a
    /// duplicated or re-declared function, a field / function / case / parameter renamed to a name
    /// that is already in use or that the backend generates itself). Such a program is no longer
    /// accepted by construction: checks that use this judge only what pyxis accepts.
    pub clashes: u64,
    /// Some(k): every perturbation is of kind k (see clash_perturb) instead of a drawn one
    pub clash_kind: Option<u64>,
    /// clash perturbations may also rename things (off: only duplicated / re-declared functions and
    /// members, for checks whose expectations come from the reference model)
    pub clash_renames: bool,
    /// with `clash_renames` off: non-base fields may still be renamed (the method surface does not
    /// depend on their names)
    pub clash_field_renames: bool,
    /// the first base may sit behind a gap even when it carries the vftable pointer the derived type
    /// shares (off: such a base is always at offset 0, which the L2/L3 oracles assume)
    pub vft_base_anywhere: bool,
    /// n > 0: one program in n gives two struct types of different modules the same short name, when
    /// no module can see both (short names are otherwise unique in a program). `Known::name` is stale
    /// for such programs: only for checks that work from the program itself.
    pub alias_types: u64,
    /// a struct is packed with probability 1/packed_den (when `packed` is on)
    pub packed_den: u64,
    /// a type may derive, in another module, from a type that has a private virtual function (the
    /// wrappers then do not compile: finding F20; only for checks that read the output with syn)
    pub allow_f20: bool,
    /// rare index gaps of several thousand slots in vftable blocks
    pub big_vft_gaps: bool,
    /// `_: unknown<N>` gap fields may be written `pub` and carry doc comments (both are meaningless for
    /// padding and must not show in the output)
    pub decorated_gaps: bool,
    /// a `#[base]` field may have an extern type (no functions, no table: only the conversions matter)
    pub extern_bases: bool,
}

impl GenCfg {
    pub fn rich(w: u64) -> GenCfg {
        GenCfg {
            w,
            max_mods: 4,
            max_items: 12,
            max_fields: 8,
            nested_dirs: true,
            enums: true,
            externs: true,
            vfts: true,
            bases: true,
            impls: true,
            ext_vals: true,
            singletons: true,
            backends: true,
            docs: true,
            markers: true,
            packed: true,
            vis_random: true,
            ccs: true,
            int_args_only: false,
            mappable_addrs: false,
            max_gap: 64,
            spellings: true,
            allow_packed_embed: false,
            sound_derives: true,
            hazard_names: true,
            vft_num: 1,
            base_num: 1,
            static_vfuncs: false,
            shared_names: true,
            clashes: 0,
            clash_kind: None,
            clash_renames: true,
            clash_field_renames: false,
            vft_base_anywhere: false,
            alias_types: 0,
            packed_den: 7,
            allow_f20: false,
            big_vft_gaps: false,
            decorated_gaps: false,
            extern_bases: false,
        }
    }
    pub fn layout_only(w: u64) -> GenCfg {
        GenCfg {
            impls: false,
            ext_vals: false,
            singletons: false,
            backends: false,
            docs: false,
            markers: false,
            ccs: false,
            ..GenCfg::rich(w)
        }
    }
}

/// What the generator knows about an item it has produced.
#[derive(Clone, Debug)]
pub struct Known {
    pub name: String,
    pub module: usize,
    pub size: u64,
    pub align: u64,
    /// "struct" | "enum" | "extern"
    pub kind: &'static str,
    pub packed: bool,
    pub copyable: bool,
    pub cloneable: bool,
    pub defaultable: bool,
    pub has_vft: bool,
    pub vis: bool,
    /// its (own or inherited) vftable has a private function: a derived type in another module would
    /// get a wrapper that reads a private field of the base's vftable struct (finding F20, excluded)
    pub private_vfunc: bool,
    /// the type and all of its transitive bases are public (needed to derive from it in another module)
    pub hier_pub: bool,
}

pub struct Gen<'t, 'd> {
    pub t: &'t mut Tape<'d>,
    pub cfg: GenCfg,
    pub prog: Prog,
    pub known: Vec<Known>,
    pub counter: u64,
    pub doc_counter: u64,
    pub page_counter: u64,
    pub used_addrs: BTreeSet<u64>,
    /// how many times a construction had to be repaired / abandoned
    pub repairs: BTreeMap<String, u64>,
}

/// whole doc lines with Markdown meaning (C17 compares them verbatim; its multiset oracle knows this set)
pub const MD_DOC_LINES: &[&str] = &["```", " ```", " ```cpp", " ~~~", " # Heading", " - item", "     indented code", " [link](http://x)", " <b>html</b>", " | a | b |", " > quote", " 1. one"];

const SCALARS: &[&str] = &["u8", "u16", "u32", "u64", "i8", "i16", "i32", "i64", "bool", "f32", "f64", "u128", "i128"];
const INT_SCALARS: &[&str] = &["u8", "u16", "u32", "u64", "i8", "i16", "i32", "i64", "bool"];
pub const CCS: &[&str] = &["C", "cdecl", "stdcall", "fastcall", "thiscall", "vectorcall", "system"];

impl<'t, 'd> Gen<'t, 'd> {
    pub fn new(t: &'t mut Tape<'d>, cfg: GenCfg) -> Self {
        Gen {
            t,
            cfg,
            prog: Prog::default(),
            known: vec![],
            counter: 0,
            doc_counter: 0,
            page_counter: 0,
            used_addrs: BTreeSet::new(),
            repairs: BTreeMap::new(),
        }
    }

    fn fresh(&mut self, prefix: &str) -> String {
        self.counter += 1;
        format!("{prefix}{}", self.counter)
    }

    fn num(&mut self, v: u64) -> Num {
        let mut sp = if self.cfg.spellings { self.t.below(6) as u8 } else { 0 };
        // now and then with a type suffix (0xFFu64, 16usize)
        if self.cfg.spellings && self.t.chance(1, 10) {
            sp += 6 * (1 + self.t.below(5) as u8);
        }
        Num { v: v as i128, sp }
    }

    fn doc(&mut self, max_lines: u64) -> Vec<String> {
        if !self.cfg.docs || !self.t.chance(1, 3) {
            return vec![];
        }
        let n = 1 + self.t.below(max_lines);
        let mut v = vec![];
        for i in 0..n {
            self.doc_counter += 1;
            // empty lines anywhere, also last (regression for fixed finding F26)
            if self.t.chance(1, 5) {
                v.push(String::new());
            } else if self.t.chance(1, 12) {
                // lines that mean something to Markdown / rustdoc: they are to be carried over verbatim too
                v.push(self.t.pick(MD_DOC_LINES).to_string());
            } else {
                // now and then with characters that need care in a string literal / comment
                let extra = if self.t.chance(1, 6) { *self.t.pick(&[" \"quoted\"", " back\\slash", " */ end", " {braces}", " 'tick", " tab\there", " #[attr]", " üñí"]) } else { "" };
                v.push(format!(" pv-doc-{}{}", self.doc_counter, extra));
            }
        }
        v
    }

    /// A function name: usually fresh, sometimes from a small shared pool (never one of `avoid`).
    fn fn_name(&mut self, prefix: &str, avoid: &[String]) -> String {
        if self.cfg.shared_names && self.t.chance(1, 5) {
            // mostly a shared function name, sometimes the name of a (possible) field
            let cand = if self.t.chance(1, 5) { format!("f{}", self.t.below(3)) } else { format!("shared{}", self.t.below(4)) };
            if !avoid.contains(&cand) {
                return cand;
            }
        }
        self.fresh(prefix)
    }

    fn sty(&mut self) -> u8 {
        if self.cfg.spellings {
            (self.t.below(4) as u8) | if self.t.chance(1, 4) { 0x80 } else { 0 } | if self.t.chance(1, 3) { 0x40 } else { 0 } | if self.t.chance(1, 3) { 0x10 } else { 0 }
        } else {
            0
        }
    }

    fn vis(&mut self) -> bool {
        if self.cfg.vis_random {
            self.t.chance(2, 3)
        } else {
            true
        }
    }

    pub fn address(&mut self) -> u64 {
        if self.cfg.mappable_addrs {
            let bases = [0x0040_0000u64, 0x1000_0000, 0x7654_0000, 0x1_0000_0000, 0x1234_5678_0000, 0x3fff_0000_0000];
            let base = *self.t.pick(&bases);
            self.page_counter += 1;
            // 64-aligned: the emitted accessors dereference the address as a typed pointer
            let off = 64 * self.t.below(0x38);
            let a = base + self.page_counter * 0x1000 + off;
            self.used_addrs.insert(a);
            a
        } else {
            loop {
                let a = match self.t.below(4) {
                    0 => self.t.small(0xffff),
                    1 => 0x40_0000 + self.t.below(0x10_0000),
                    2 => self.t.below(0x1_0000_0000),
                    _ => {
                        if self.cfg.w == 8 {
                            // attribute numbers are isize in the grammar
                            (self.t.u64() >> 1) >> self.t.below(24)
                        } else {
                            self.t.below(0x1_0000_0000)
                        }
                    }
                };
                let a = a + self.counter; // keep them distinct
                if self.used_addrs.insert(a) {
                    return a;
                }
                self.counter += 1;
            }
        }
    }

    // ------------------------------------------------------------ modules

    fn gen_modules(&mut self) {
        let n = 1 + self.t.below(self.cfg.max_mods);
        for i in 0..n {
            let name = format!("m{i}");
            let mut path = vec![];
            if self.cfg.nested_dirs && i > 0 && self.t.chance(1, 3) {
                // nest under a directory: either a fresh directory name or an existing top-level module's name
                let depth = 1 + self.t.below(2);
                for d in 0..depth {
                    if d == 0 && self.t.chance(1, 2) {
                        let j = self.t.below(i);
                        if self.prog.mods[j as usize].path.len() == 1 {
                            path.push(format!("m{j}"));
                            continue;
                        }
                    }
                    path.push(format!("d{}", self.t.below(3)));
                }
            }
            path.push(name);
            let doc = if self.cfg.docs && self.t.chance(1, 4) {
                let n = 1 + self.t.below(3);
                (0..n)
                    .map(|_| {
                        self.doc_counter += 1;
                        format!(" pv-doc-{}", self.doc_counter)
                    })
                    .collect()
            } else {
                vec![]
            };
            // the statements of a file may stand in any order
            let sty = if self.cfg.spellings && self.t.chance(1, 3) { self.t.below(128) as u8 } else { 0 };
            self.prog.mods.push(Mod {
                sty,
                path,
                doc,
                ..Default::default()
            });
        }
    }

    /// Make `name` (defined in module `def_m`) visible in module `m` under its short name.
    fn import(&mut self, m: usize, def_m: usize, name: &str) {
        if m == def_m {
            return;
        }
        let modp = self.prog.mods[def_m].path.clone();
        let mut typep = modp.clone();
        typep.push(name.to_string());
        let uses = &self.prog.mods[m].uses;
        if uses.contains(&modp) || uses.contains(&typep) {
            return;
        }
        if self.t.chance(1, 2) {
            self.prog.mods[m].uses.push(typep);
        } else {
            self.prog.mods[m].uses.push(modp);
        }
    }

    // -------------------------------------------------------------- types

    fn scalar(&mut self) -> Ty {
        Ty::n(*self.t.pick(SCALARS))
    }

    /// A type usable in a parameter / return position.
    pub fn sig_ty(&mut self, m: usize) -> Ty {
        if self.cfg.int_args_only {
            return match self.t.below(4) {
                0..=2 => Ty::n(*self.t.pick(INT_SCALARS)),
                _ => {
                    let inner = self.ptr_target_vis(m, true);
                    if self.t.chance(1, 2) {
                        inner.cptr()
                    } else {
                        inner.mptr()
                    }
                }
            };
        }
        match self.t.below(8) {
            0..=3 => self.scalar(),
            4 | 5 => {
                let inner = self.ptr_target_vis(m, true);
                if self.t.chance(1, 2) {
                    inner.cptr()
                } else {
                    inner.mptr()
                }
            }
            6 => {
                // user type by value (public: signatures are copied into derived types of other modules)
                let cands: Vec<usize> = (0..self.known.len()).filter(|&k| self.known[k].vis).collect();
                if cands.is_empty() {
                    self.scalar()
                } else {
                    let k = cands[self.t.below(cands.len() as u64) as usize];
                    let (dm, name) = (self.known[k].module, self.known[k].name.clone());
                    self.import(m, dm, &name);
                    Ty::Named(name)
                }
            }
            _ => {
                let e = self.scalar();
                e.arr(1 + self.t.below(4))
            }
        }
    }

    fn ptr_target(&mut self, m: usize) -> Ty {
        self.ptr_target_vis(m, false)
    }

    fn ptr_target_vis(&mut self, m: usize, public_only: bool) -> Ty {
        match self.t.below(6) {
            0 => Ty::n("void"),
            1 | 2 => self.scalar(),
            3 => {
                let inner = self.scalar();
                inner.cptr()
            }
            _ => {
                let cands: Vec<usize> = (0..self.known.len()).filter(|&k| (!public_only && self.known[k].module == m) || self.known[k].vis).collect();
                if cands.is_empty() {
                    Ty::n("void")
                } else {
                    let k = cands[self.t.below(cands.len() as u64) as usize];
                    let (dm, name) = (self.known[k].module, self.known[k].name.clone());
                    self.import(m, dm, &name);
                    Ty::Named(name)
                }
            }
        }
    }

    /// (type, size, align, is_ptr, leaf known index)
    fn field_ty(&mut self, m: usize, packed: bool, self_name: &str) -> (Ty, u64, u64, Option<usize>) {
        let w = self.cfg.w;
        loop {
            match self.t.below(12) {
                0..=3 => {
                    let s = *self.t.pick(SCALARS);
                    let sz = builtin_size(s).unwrap();
                    return (Ty::n(s), sz, sz.max(1), None);
                }
                4 | 5 => {
                    let target = if self.t.chance(1, 4) { Ty::Named(self_name.to_string()) } else { self.ptr_target(m) };
                    let p = if self.t.chance(1, 2) { target.cptr() } else { target.mptr() };
                    return (p, w, w, None);
                }
                6 => {
                    let n = self.t.small(48);
                    return (Ty::Unk(n), n, 1, None);
                }
                7 => {
                    let s = *self.t.pick(SCALARS);
                    let sz = builtin_size(s).unwrap();
                    let n = 1 + self.t.below(12);
                    if self.t.chance(1, 5) {
                        let k = 1 + self.t.below(3);
                        return (Ty::n(s).arr(n).arr(k), sz * n * k, sz.max(1), None);
                    }
                    return (Ty::n(s).arr(n), sz * n, sz.max(1), None);
                }
                8 => {
                    let n = 1 + self.t.below(5);
                    let p = Ty::n(*self.t.pick(&["void", "u8", "u32"])).cptr();
                    return (p.arr(n), w * n, w, None);
                }
                _ => {
                    // user item by value, possibly inside an array
                    let cands: Vec<usize> = (0..self.known.len())
                        .filter(|&k| {
                            let kn = &self.known[k];
                            (kn.module == m || kn.vis)
                                && kn.name != self_name
                                && (!packed || self.cfg.allow_packed_embed || kn.kind == "enum" || (kn.kind == "struct" && kn.packed))
                        })
                        .collect();
                    if cands.is_empty() {
                        continue;
                    }
                    let k = cands[self.t.below(cands.len() as u64) as usize];
                    let kn = self.known[k].clone();
                    self.import(m, kn.module, &kn.name);
                    if kn.size > 0 && self.t.chance(1, 5) {
                        let n = 1 + self.t.below(4);
                        return (Ty::Named(kn.name.clone()).arr(n), kn.size * n, kn.align, Some(k));
                    }
                    return (Ty::Named(kn.name.clone()), kn.size, kn.align, Some(k));
                }
            }
        }
    }

    pub fn gen_func(&mut self, m: usize, name: String, is_vfunc: bool) -> Func {
        let mut args = vec![];
        if (is_vfunc && !(self.cfg.static_vfuncs && self.t.chance(1, 6))) || (!is_vfunc && self.t.chance(3, 4)) {
            args.push(if self.t.chance(1, 2) { Arg::ConstSelf } else { Arg::MutSelf });
        }
        let n = self.t.below(if self.cfg.int_args_only { 7 } else { 5 });
        for k in 0..n {
            let ty = self.sig_ty(m);
            let an = if self.cfg.hazard_names && self.t.chance(1, 12) {
                self.t.pick(&["f", "this", "ptr"]).to_string()
            } else {
                format!("a{k}")
            };
            if args.iter().any(|a| matches!(a, Arg::Named(n, _) if *n == an)) {
                args.push(Arg::Named(format!("a{k}"), ty));
            } else {
                args.push(Arg::Named(an, ty));
            }
        }
        let ret = if self.t.chance(1, 2) { Some(self.sig_ty(m)) } else { None };
        let cc = if self.cfg.ccs && self.t.chance(1, 3) { Some(self.t.pick(CCS).to_string()) } else { None };
        let addr = if is_vfunc {
            None
        } else {
            let a = self.address();
            Some(self.num(a))
        };
        Func {
            more: vec![],
            sty: self.sty(),
            vis: self.vis(),
            name,
            doc: self.doc(3),
            args,
            ret,
            addr,
            index: None,
            cc,
        }
    }

    fn gen_vft(&mut self, m: usize, prefix: Option<&Vft>) -> Vft {
        let mut funcs: Vec<Func> = vec![];
        let mut next: u64 = 0;
        if let Some(p) = prefix {
            funcs = p.funcs.clone();
            let s = vft_slots(p);
            next = s.len;
            // the base's trailing placeholder slots are reproduced either by an index on the next
            // function or by a size attribute
        }
        let base_len = next;
        let last_declared = prefix.map(|p| vft_slots(p).slot.last().map(|s| s + 1).unwrap_or(0)).unwrap_or(0);
        let n = self.t.below(5);
        for _ in 0..n {
            let name = self.fn_name("vf", &funcs.iter().map(|f| f.name.clone()).collect::<Vec<_>>());
            let mut f = self.gen_func(m, name, true);
            let gap = if self.t.chance(1, 4) {
                1 + self.t.below(3)
            } else if self.cfg.big_vft_gaps && self.t.chance(1, 25) {
                4000 + self.t.below(3000)
            } else {
                0
            };
            let slot = next + gap;
            let need_index = gap > 0 || (funcs.len() as u64 == prefix.map(|p| p.funcs.len() as u64).unwrap_or(0) && base_len > last_declared);
            if need_index || self.t.chance(1, 5) {
                f.index = Some(self.num(slot));
            }
            next = slot + 1;
            funcs.push(f);
        }
        let mut size = None;
        let added = funcs.len() > prefix.map(|p| p.funcs.len()).unwrap_or(0);
        if !added && base_len > last_declared {
            // nothing added after a base table that ends in placeholders: restate the size
            size = Some(self.num(base_len));
        } else if self.t.chance(1, 5) {
            let s = next + self.t.below(4);
            size = Some(self.num(s));
        }
        Vft { size, funcs }
    }

    /// Generate one struct in module `m`. Returns false if the construction was abandoned.
    fn gen_type(&mut self, m: usize) -> bool {
        let w = self.cfg.w;
        let name = self.fresh("T");
        let packed = self.cfg.packed && self.t.chance(1, self.cfg.packed_den.max(1));
        let mut td = TypeDef {
            sty: self.sty(),
            vis: self.vis(),
            name: name.clone(),
            doc: self.doc(3),
            packed,
            ..Default::default()
        };

        // bases
        let mut first_base_vft: Option<Vft> = None;
        let mut first_base_has_vft = false;
        let mut bases: Vec<usize> = vec![];
        if self.cfg.bases && self.t.chance(self.cfg.base_num, 3) {
            let cands: Vec<usize> = (0..self.known.len())
                .filter(|&k| {
                    let kn = &self.known[k];
                    (kn.kind == "struct" || (self.cfg.extern_bases && kn.kind == "extern"))
                        && (kn.module == m || (kn.vis && (!kn.private_vfunc || self.cfg.allow_f20) && kn.hier_pub))
                        && (!packed || kn.packed || self.cfg.allow_packed_embed)
                })
                .collect();
            if !cands.is_empty() {
                let nb = 1 + self.t.below(3);
                for _ in 0..nb {
                    bases.push(cands[self.t.below(cands.len() as u64) as usize]);
                }
            }
        }
        if let Some(&b0) = bases.first() {
            first_base_has_vft = self.known[b0].has_vft;
            if first_base_has_vft {
                first_base_vft = self.effective_vft(b0);
            }
        }

        // vftable block
        let mut owns_vptr = false;
        if self.cfg.vfts {
            if first_base_has_vft {
                if self.t.chance(1, 2) {
                    let pre = first_base_vft.clone();
                    let v = self.gen_vft(m, pre.as_ref());
                    self.import_sig(m, &v);
                    td.vft = Some(v);
                }
            } else if self.t.chance(self.cfg.vft_num, 4) {
                // an owner's block may happen to start with the very functions of one of its later bases
                // (which has a table of its own): the pointer is the owner's all the same
                let later: Vec<usize> = bases.iter().skip(1).copied().filter(|&b| self.known[b].has_vft).collect();
                let pre = if !later.is_empty() && self.t.chance(1, 2) { self.effective_vft(later[0]) } else { None };
                let v = self.gen_vft(m, pre.as_ref());
                if pre.is_some() {
                    self.import_sig(m, &v);
                }
                td.vft = Some(v);
                owns_vptr = true;
            }
        }

        // fields
        let mut cursor: u64 = if owns_vptr { w } else { 0 };
        let mut max_align: u64 = if owns_vptr { w } else { 1 };
        let mut can_copy = true;
        let mut can_clone = true;
        let mut can_default = !owns_vptr;
        let mut fields: Vec<Field> = vec![];
        let nf = self.t.below(self.cfg.max_fields + 1);
        let total = bases.len() as u64 + nf;
        for fi in 0..total {
            let (ty, size, align, leaf, is_base) = if (fi as usize) < bases.len() {
                let kn = self.known[bases[fi as usize]].clone();
                self.import(m, kn.module, &kn.name);
                (Ty::Named(kn.name.clone()), kn.size, kn.align, Some(bases[fi as usize]), true)
            } else {
                let (ty, s, a, leaf) = self.field_ty(m, packed, &name);
                (ty, s, a, leaf, false)
            };
            let eff_align = if packed { 1 } else { align.max(1) };
            let aligned = (cursor + eff_align - 1) / eff_align * eff_align;
            // the first base that carries the vftable pointer must sit at offset 0
            let force_zero = is_base && fi == 0 && first_base_has_vft && !self.cfg.vft_base_anywhere;
            let gap = if force_zero || !self.t.chance(1, 4) {
                0
            } else if self.cfg.max_gap >= 64 && self.t.chance(1, 12) {
                // rare large, round offsets
                eff_align.max(1) * *self.t.pick(&[256u64, 0x1000, 0x10000, 0xFFF0, 0x100000]) / eff_align.max(1) * eff_align.max(1)
            } else {
                eff_align * (1 + self.t.small(self.cfg.max_gap) / eff_align.max(1)).min(self.cfg.max_gap)
            };
            let offset = aligned + gap;
            let mut addr = None;
            if offset != cursor {
                // state the position: as an address or as a preceding unknown gap
                if self.t.chance(1, 3) {
                    let deco = self.cfg.decorated_gaps && self.t.chance(1, 2);
                    let gdoc = if deco && self.t.chance(1, 2) { vec![format!(" pv-gapdoc-{}", self.counter)] } else { vec![] };
                    fields.push(Field {
                        sty: 0,
                        vis: deco && self.t.chance(1, 2),
                        name: "_".into(),
                        ty: Ty::Unk(offset - cursor),
                        addr: None,
                        base: false,
                        doc: gdoc,
                    });
                    if offset - cursor > 32 {
                        can_default = false;
                    }
                } else {
                    addr = Some(self.num(offset));
                    if offset - cursor > 32 {
                        can_default = false;
                    }
                }
            } else if self.t.chance(1, 6) {
                addr = Some(self.num(offset));
            }
            // marker bookkeeping
            match (&ty, leaf) {
                (Ty::CPtr(_) | Ty::MPtr(_), _) => can_default = false,
                (Ty::Arr(e, n), _) => {
                    if *n > 32 || matches!(**e, Ty::Arr(_, k) if k > 32) || e.is_ptr() {
                        can_default = false;
                    }
                    if let Ty::Arr(e2, _) = &**e {
                        if e2.is_ptr() {
                            can_default = false;
                        }
                    }
                }
                (Ty::Unk(n), _) => {
                    if *n > 32 {
                        can_default = false;
                    }
                }
                _ => {}
            }
            if let Some(k) = leaf {
                let kn = &self.known[k];
                can_copy &= kn.copyable;
                can_clone &= kn.cloneable;
                can_default &= kn.defaultable;
            }
            let fname = if is_base { self.fresh("b") } else if self.t.chance(1, 10) && !matches!(ty, Ty::Unk(_)) && size > 0 { "_".to_string() } else { format!("f{fi}") };
            // an unnamed field of a zero-length array type is dropped: fine. A *named* zero-length array is
            // not emitted either (generator restriction, DESIGN §2.1): never generated (arrays have >= 1 element)
            let fname_is_unnamed = fname == "_";
            fields.push(Field {
                sty: self.sty(),
                vis: if is_base && self.prog.mods.len() > 1 { true } else { self.vis() },
                name: fname,
                ty,
                addr,
                base: is_base,
                doc: if is_base || fname_is_unnamed { vec![] } else { self.doc(2) },
            });
            cursor = offset + size;
            max_align = max_align.max(eff_align);
        }
        td.fields = fields;

        // size / alignment so that the description is realisable
        if !packed {
            let regions_guess_single = td.fields.len() + owns_vptr as usize == 1 && td.fields.iter().all(|f| f.addr.is_none());
            let default_align = if regions_guess_single { max_align } else { w };
            let mut align = default_align;
            let mut explicit = false;
            if default_align < max_align || self.t.chance(1, 5) {
                align = max_align.max(1) << self.t.below(2);
                explicit = true;
            }
            if align < max_align {
                align = max_align;
                explicit = true;
            }
            if explicit {
                td.align = Some(self.num(align));
            }
            let rounded = (cursor + align - 1) / align * align;
            let extra = if self.t.chance(1, 6) { align * self.t.below(3) } else { 0 };
            let size = rounded + extra;
            if size != cursor {
                if size - cursor > 32 {
                    can_default = false;
                }
                if self.t.chance(1, 3) {
                    td.fields.push(Field {
                        sty: 0,
                        vis: false,
                        name: "_".into(),
                        ty: Ty::Unk(size - cursor),
                        addr: None,
                        base: false,
                        doc: vec![],
                    });
                } else {
                    td.size = Some(self.num(size));
                }
            } else if self.t.chance(1, 6) {
                td.size = Some(self.num(size));
            }
        } else if self.t.chance(1, 5) {
            let extra = self.t.below(8);
            if extra > 32 {
                can_default = false;
            }
            td.size = Some(self.num(cursor + extra));
        }

        // markers
        if self.cfg.markers {
            let sound = self.cfg.sound_derives;
            // derive(Clone) on a packed struct copies the fields out, so they must be Copy
            let can_clone = if packed { can_copy } else { can_clone };
            if self.t.chance(1, 4) && (can_copy || !sound) {
                td.copyable = true;
            } else if self.t.chance(1, 4) && (can_clone || !sound) {
                td.cloneable = true;
            }
            if can_default && self.t.chance(1, 3) {
                td.defaultable = true;
            }
        }
        if self.cfg.singletons && self.t.chance(1, 8) {
            let a = self.address();
            td.singleton = Some(self.num(a));
        }

        // verify with the reference model
        self.prog.mods[m].items.push(Item::Type(td.clone()));
        let idx = self.prog.mods[m].items.len() - 1;
        let lay = {
            let mut model = Model::new(&self.prog, w);
            model.layout(m, idx)
        };
        match lay {
            Ok(l) if l.reject.is_none() => {
                self.known.push(Known {
                    name,
                    module: m,
                    size: l.size,
                    align: l.align,
                    kind: "struct",
                    packed,
                    copyable: td.copyable,
                    cloneable: td.copyable || td.cloneable,
                    defaultable: td.defaultable,
                    has_vft: l.has_vft,
                    vis: td.vis,
                    hier_pub: td.vis && bases.iter().all(|&b| self.known[b].hier_pub),
                    private_vfunc: {
                        let own = td.vft.as_ref().map(|v| v.funcs.iter().any(|f| !f.vis)).unwrap_or(false);
                        let inherited = bases.first().map(|&b| self.known[b].private_vfunc).unwrap_or(false);
                        own || (first_base_has_vft && inherited)
                    },
                });
                // impl block
                if self.cfg.impls && self.t.chance(1, 2) {
                    let n = 1 + self.t.below(3);
                    let mut funcs = vec![];
                    // names already taken on this type (vftable wrappers, re-exposed base functions): an own
                    // function of that name is rejected by pyxis, so avoid those
                    let taken: Vec<String> = {
                        let mut model = Model::new(&self.prog, w);
                        let s = model.surface(m, idx);
                        s.vfuncs.iter().chain(s.assoc.iter()).map(|x| x.name.clone()).chain(["vftable".to_string(), "get".to_string()]).collect()
                    };
                    for _ in 0..n {
                        let mut avoid = taken.clone();
                        avoid.extend(funcs.iter().map(|f: &Func| f.name.clone()));
                        let fname = self.fn_name("fn", &avoid);
                        funcs.push(self.gen_func(m, fname, false));
                    }
                    self.prog.mods[m].impls.push(Impl { more: vec![], ty: td.name.clone(), funcs });
                }
                true
            }
            other => {
                let why = match other {
                    Ok(l) => format!("{:?}", l.reject.unwrap()),
                    Err(s) => format!("{s:?}"),
                };
                *self.repairs.entry(format!("abandoned:{why}")).or_insert(0) += 1;
                self.prog.mods[m].items.pop();
                false
            }
        }
    }

    /// Make every user type named in the signatures of `v` visible in module `m`.
    fn import_sig(&mut self, m: usize, v: &Vft) {
        let mut names = vec![];
        for f in &v.funcs {
            for a in &f.args {
                if let Arg::Named(_, t) = a {
                    if let Some(n) = t.leaf() {
                        names.push(n.to_string());
                    }
                }
            }
            if let Some(n) = f.ret.as_ref().and_then(|t| t.leaf()) {
                names.push(n.to_string());
            }
        }
        for n in names {
            if let Some(k) = self.known.iter().position(|x| x.name == n) {
                let dm = self.known[k].module;
                self.import(m, dm, &n);
            }
        }
    }

    /// The vftable (declared functions with indices, size) a known struct effectively has: its own
    /// block, or the one it inherits through its first base.
    fn effective_vft(&self, k: usize) -> Option<Vft> {
        let kn = &self.known[k];
        let m = &self.prog.mods[kn.module];
        let td = m.types().find(|t| t.name == kn.name)?;
        if let Some(v) = &td.vft {
            // normalise: a table that is extended must be restated in full (with indices that
            // reproduce the placeholders)
            return Some(v.clone());
        }
        let fb = td.fields.iter().find(|f| f.base)?;
        let Ty::Named(n) = &fb.ty else { return None };
        let bk = self.known.iter().position(|x| x.name == *n)?;
        self.effective_vft(bk)
    }

    fn gen_enum(&mut self, m: usize) {
        let name = self.fresh("E");
        let base = *self.t.pick(INT_TYPES);
        let bits = builtin_size(base).unwrap() * 8;
        let signed = base.starts_with('i');
        let (lo, hi): (i128, i128) = if signed {
            (-(1i128 << (bits.min(64) - 1)), (1i128 << (bits.min(64) - 1)) - 1)
        } else {
            (0, if bits >= 64 { i64::MAX as i128 } else { (1i128 << bits) - 1 })
        };
        // 32-bit targets cannot hold discriminants beyond isize (finding F05): keep within i32 for u64/i64 too when w == 4
        let (lo, hi) = if self.cfg.w == 4 { (lo.max(i32::MIN as i128), hi.min(i32::MAX as i128)) } else { (lo, hi) };
        let n = 1 + self.t.below(8);
        let mut variants = vec![];
        let mut used = BTreeSet::new();
        let mut next: i128 = 0;
        for k in 0..n {
            let mut value = None;
            let mut v = next;
            if self.t.chance(1, 3) || used.contains(&v) || v > hi || v < lo {
                // explicit value
                let mut tries = 0;
                loop {
                    let cand: i128 = match self.t.below(5) {
                        0 => lo,
                        1 => hi - self.t.below(4) as i128,
                        2 if signed => -(self.t.small(100) as i128),
                        _ => self.t.small(300) as i128,
                    };
                    let cand = cand.clamp(lo, hi);
                    tries += 1;
                    if !used.contains(&cand) {
                        v = cand;
                        break;
                    }
                    if tries > 20 {
                        v = (0..).map(|x| x as i128).find(|x| !used.contains(x) && *x <= hi).unwrap_or(hi);
                        break;
                    }
                }
                value = Some(Num { v, sp: if self.cfg.spellings { self.t.below(6) as u8 + if self.t.chance(1, 10) { 6 * (1 + self.t.below(5) as u8) } else { 0 } } else { 0 } });
            }
            if used.contains(&v) || v > hi || v < lo {
                break;
            }
            used.insert(v);
            let vdoc = if self.t.chance(1, 6) { self.doc(2) } else { vec![] };
            variants.push(Variant {
                sty: self.sty(),
                name: format!("V{k}"),
                value,
                default: false,
                doc: vdoc,
            });
            next = v + 1;
        }
        if variants.is_empty() {
            variants.push(Variant {
                sty: self.sty(),
                name: "V0".into(),
                value: None,
                default: false,
                doc: vec![],
            });
        }
        let mut e = EnumDef {
            sty: self.sty(),
            vis: self.vis(),
            name: name.clone(),
            doc: self.doc(3),
            base: base.to_string(),
            variants,
            singleton: None,
            copyable: false,
            cloneable: false,
            defaultable: false,
        };
        if self.cfg.markers {
            if self.t.chance(1, 2) {
                e.copyable = true;
            } else if self.t.chance(1, 3) {
                e.cloneable = true;
            }
            if self.t.chance(1, 3) {
                e.defaultable = true;
                let k = self.t.below(e.variants.len() as u64) as usize;
                e.variants[k].default = true;
            }
        }
        if self.cfg.singletons && self.t.chance(1, 8) && e.copyable {
            let a = self.address();
            e.singleton = Some(self.num(a));
        }
        let size = builtin_size(base).unwrap();
        self.known.push(Known {
            name,
            module: m,
            size,
            align: size,
            kind: "enum",
            packed: false,
            copyable: e.copyable,
            cloneable: e.copyable || e.cloneable,
            defaultable: e.defaultable,
            has_vft: false,
            vis: e.vis,
            private_vfunc: false,
            hier_pub: true,
        });
        self.prog.mods[m].items.push(Item::Enum(e));
    }

    fn gen_extern_type(&mut self, m: usize) {
        let name = self.fresh("X");
        let align = 1u64 << self.t.below(5);
        let size = align * self.t.below(9);
        let (s, a) = (self.num(size), self.num(align));
        self.prog.mods[m].ext_types.push(ExtType {
            name: name.clone(),
            size: s,
            align: a,
        });
        self.known.push(Known {
            name,
            module: m,
            size,
            align,
            kind: "extern",
            packed: false,
            // the harness supplies extern types as Copy + Clone structs
            copyable: true,
            cloneable: true,
            defaultable: false,
            has_vft: false,
            vis: true,
            private_vfunc: false,
            hier_pub: true,
        });
    }

    fn gen_extern_value(&mut self, m: usize) {
        let name = self.fresh("g");
        let ty = match self.t.below(4) {
            0 => self.scalar(),
            1 => {
                // pointers of both kinds, also two levels deep
                let p = self.ptr_target(m);
                match self.t.below(4) {
                    0 => p.cptr(),
                    1 => p.cptr().mptr(),
                    _ => p.mptr(),
                }
            }
            2 => {
                // arrays of scalars or of pointers
                let e = if self.t.chance(1, 3) { self.scalar().cptr() } else { self.scalar() };
                e.arr(1 + self.t.below(8))
            }
            _ => {
                let cands: Vec<usize> = (0..self.known.len()).filter(|&k| self.known[k].module == m || self.known[k].vis).collect();
                if cands.is_empty() {
                    self.scalar()
                } else {
                    let k = cands[self.t.below(cands.len() as u64) as usize];
                    let (dm, n) = (self.known[k].module, self.known[k].name.clone());
                    self.import(m, dm, &n);
                    Ty::Named(n)
                }
            }
        };
        let mut a = self.address();
        // the accessor dereferences a typed pointer: the address must be aligned for the type
        // (over-aligned user types exist: the generator doubles alignments through nesting)
        let need = match &ty {
            Ty::Named(n) => self.known.iter().find(|k| k.name == *n).map(|k| k.align).unwrap_or(16),
            _ => 16,
        };
        if need > 1 && a % need != 0 {
            self.used_addrs.remove(&a);
            a = (a / need + 1) * need;
            self.used_addrs.insert(a);
            // the rounded address may reach into the following pages: keep them free
            self.page_counter += 1 + need / 0x1000;
        }
        let addr = Some(self.num(a));
        let vis = self.vis();
        let doc = if self.t.chance(1, 4) { self.doc(2) } else { vec![] };
        let sty = self.sty();
        self.prog.mods[m].ext_vals.push(ExtVal {
            sty,
            vis,
            name,
            ty,
            addr,
            doc,
        });
    }

    fn gen_backends(&mut self, m: usize) {
        let n = self.t.below(4);
        for _ in 0..n {
            let rust = self.t.chance(3, 4);
            let name = if rust { "rust".to_string() } else { self.t.pick(&["cpp", "csharp", "Rust", "rust2"]).to_string() };
            let mut mk = |g: &mut Self, what: &str| -> String {
                g.counter += 1;
                if rust {
                    let k = 1 + g.t.below(2);
                    let mut text = (0..k)
                        .map(|j| format!("pub const PV_MARK_{}_{}_{}: u32 = {};", what, g.counter, j, j))
                        .collect::<Vec<_>>()
                        .join("\n");
                    // comments at the edges of the text: what follows or precedes must survive them
                    match g.t.below(8) {
                        0 => text.push_str(" // keep in sync with the header"),
                        1 => text.push_str("\n// trailing line comment"),
                        2 => text = format!("// leading line comment\n{text}"),
                        3 => text = format!("/* leading block comment */ {text} /* trailing block comment */"),
                        _ => {}
                    }
                    text
                } else {
                    format!("#include <not_rust_{}.h> PV_OTHER_{}", g.counter, g.counter)
                }
            };
            let form = self.t.below(4) as u8;
            let (p, e) = match form {
                1 => (Some(mk(self, "PRO")), None),
                2 => (None, Some(mk(self, "EPI"))),
                _ => {
                    let p = if self.t.chance(2, 3) { Some(mk(self, "PRO")) } else { None };
                    let e = if self.t.chance(2, 3) { Some(mk(self, "EPI")) } else { None };
                    (p, e)
                }
            };
            self.prog.mods[m].backends.push(BackendBlk {
                name,
                form,
                prologue: p,
                epilogue: e,
            });
        }
    }

    pub fn run(mut self) -> (Prog, Vec<Known>, BTreeMap<String, u64>) {
        self.gen_modules();
        let nm = self.prog.mods.len();
        let n_items = 1 + self.t.below(self.cfg.max_items);
        for _ in 0..n_items {
            let m = self.t.below(nm as u64) as usize;
            match self.t.below(10) {
                0 | 1 if self.cfg.enums => self.gen_enum(m),
                2 if self.cfg.externs => self.gen_extern_type(m),
                _ => {
                    self.gen_type(m);
                }
            }
        }
        for m in 0..nm {
            if self.cfg.ext_vals {
                let n = self.t.below(3);
                for _ in 0..n {
                    self.gen_extern_value(m);
                }
            }
            if self.cfg.backends {
                self.gen_backends(m);
            }
        }
        if self.cfg.alias_types > 0 && self.t.chance(1, self.cfg.alias_types) {
            let n = 1 + self.t.below(2);
            for _ in 0..n {
                self.alias_type_names();
            }
        }
        if self.cfg.clashes > 0 && self.t.chance(1, self.cfg.clashes) {
            let n = 1 + self.t.below(2);
            for _ in 0..n {
                self.clash_perturb();
            }
        }
        (self.prog, self.known, self.repairs)
    }

    // ------------------------------------------------------------ same short name in two modules

    /// module `m` can name the item `name` of module `d` (defines it, imports the module, or imports it by name)
    fn sees(&self, m: usize, d: usize, name: &str) -> bool {
        if m == d {
            return true;
        }
        let modp = &self.prog.mods[d].path;
        let mut typep = modp.clone();
        typep.push(name.to_string());
        self.prog.mods[m].uses.iter().any(|u| u == modp || *u == typep)
    }

    fn alias_type_names(&mut self) {
        let structs: Vec<(usize, String)> = self
            .prog
            .mods
            .iter()
            .enumerate()
            .flat_map(|(mi, m)| m.types().map(move |t| (mi, t.name.clone())))
            .collect();
        if structs.len() < 2 {
            return;
        }
        // half of the time: two types that are (transitive) bases of one derived type, so that the
        // conversions and re-exposed functions of that type have to tell them apart
        let mut pair: Option<((usize, String), (usize, String))> = None;
        let unique_names = structs.iter().all(|(_, n)| structs.iter().filter(|(_, n2)| n2 == n).count() == 1);
        if unique_names && self.t.chance(1, 2) {
            let find = |n: &str| structs.iter().find(|(_, x)| x == n).cloned();
            let mut cands: Vec<((usize, String), (usize, String))> = vec![];
            for (mi, m) in self.prog.mods.iter().enumerate() {
                for td in m.types() {
                    // transitive bases of td
                    let mut bases: Vec<(usize, String)> = vec![];
                    let mut todo: Vec<(usize, String)> = vec![(mi, td.name.clone())];
                    let mut guard = 0;
                    while let Some((cm, cn)) = todo.pop() {
                        guard += 1;
                        if guard > 64 {
                            break;
                        }
                        let Some(ct) = self.prog.mods[cm].types().find(|t| t.name == cn) else { continue };
                        for f in ct.fields.iter().filter(|f| f.base) {
                            if let Ty::Named(bn) = &f.ty {
                                if let Some(b) = find(bn) {
                                    bases.push(b.clone());
                                    todo.push(b);
                                }
                            }
                        }
                    }
                    for i in 0..bases.len() {
                        for j in i + 1..bases.len() {
                            if bases[i].0 != bases[j].0 && bases[i].1 != bases[j].1 {
                                cands.push((bases[i].clone(), bases[j].clone()));
                            }
                        }
                    }
                }
            }
            if !cands.is_empty() {
                pair = Some(cands[self.t.below(cands.len() as u64) as usize].clone());
            }
        }
        let ((ma, ta), (mb, tb)) = match pair {
            Some(p) => p,
            None => {
                let a = structs[self.t.below(structs.len() as u64) as usize].clone();
                let others: Vec<&(usize, String)> = structs.iter().filter(|(m, n)| *m != a.0 && *n != a.1).collect();
                if others.is_empty() {
                    return;
                }
                let b = others[self.t.below(others.len() as u64) as usize].clone();
                (a, b)
            }
        };
        // both names must still be unique in the program (an earlier round may have aliased them already)
        if structs.iter().filter(|(_, n)| *n == ta).count() != 1 || structs.iter().filter(|(_, n)| *n == tb).count() != 1 {
            return;
        }
        // nobody may be able to see both, and the new name must be free in B (also its generated table name)
        let nm = self.prog.mods.len();
        if (0..nm).any(|m| self.sees(m, ma, &ta) && self.sees(m, mb, &tb)) {
            *self.repairs.entry("alias-visible-to-one-module".into()).or_default() += 1;
            return;
        }
        let tav = format!("{ta}Vftable");
        let taken = |n: &str| n == ta || n == tav || format!("{n}Vftable") == ta;
        if self.prog.mods[mb].items.iter().any(|i| taken(i.name())) || self.prog.mods[mb].ext_types.iter().any(|e| taken(&e.name)) {
            return;
        }
        // and A must not hold something called like B's generated table under the new name, seen from B's users
        if self.prog.mods[ma].items.iter().any(|i| i.name() == tb) {
            return;
        }
        *self.repairs.entry("alias-applied".into()).or_default() += 1;
        let rename_ty = |t: &mut Ty| {
            fn go(t: &mut Ty, from: &str, to: &str) {
                match t {
                    Ty::Named(n) => {
                        if n == from {
                            *n = to.to_string();
                        }
                    }
                    Ty::CPtr(e) | Ty::MPtr(e) | Ty::Arr(e, _) => go(e, from, to),
                    Ty::Unk(_) => {}
                }
            }
            go(t, &tb, &ta)
        };
        let rename_fn = |f: &mut Func| {
            for a in f.args.iter_mut() {
                if let Arg::Named(_, t) = a {
                    rename_ty(t);
                }
            }
            if let Some(r) = &mut f.ret {
                rename_ty(r);
            }
        };
        let bpath = self.prog.mods[mb].path.clone();
        for m in self.prog.mods.iter_mut() {
            for u in m.uses.iter_mut() {
                if u.len() == bpath.len() + 1 && u[..bpath.len()] == bpath[..] && u.last() == Some(&tb) {
                    *u.last_mut().unwrap() = ta.clone();
                }
            }
            for it in m.items.iter_mut() {
                if let Item::Type(td) = it {
                    if td.name == tb {
                        td.name = ta.clone();
                    }
                    for f in td.fields.iter_mut() {
                        rename_ty(&mut f.ty);
                    }
                    if let Some(v) = &mut td.vft {
                        v.funcs.iter_mut().for_each(rename_fn);
                    }
                }
            }
            for im in m.impls.iter_mut() {
                if im.ty == tb {
                    im.ty = ta.clone();
                }
                im.funcs.iter_mut().for_each(rename_fn);
            }
            for ev in m.ext_vals.iter_mut() {
                rename_ty(&mut ev.ty);
            }
        }
    }

    // ------------------------------------------------------------ name clashes

    fn clash_perturb(&mut self) {
        let kind = match self.cfg.clash_kind {
            Some(k) => k,
            None => self.t.below(if self.cfg.clash_renames { 9 } else if self.cfg.clash_field_renames { 6 } else { 4 }),
        };
        *self.repairs.entry(format!("clash-kind-{kind}")).or_default() += 1;
        match kind {
            0 => self.clash_dup_impl_fn(),
            1 | 2 => self.clash_redeclare_inherited(),
            3 => self.clash_duplicate_member(),
            8 => {
                if self.t.chance(1, 2) {
                    self.odd_enum_base()
                } else {
                    self.case_variant_type()
                }
            }
            _ => self.clash_rename(!self.cfg.clash_renames),
        }
    }

    /// a further small type in some module whose name differs from an existing item's name only in case
    fn case_variant_type(&mut self) {
        let sites: Vec<(usize, String)> = self.prog.mods.iter().enumerate().flat_map(|(mi, m)| m.items.iter().map(move |i| (mi, i.name().to_string()))).collect();
        if sites.is_empty() {
            return;
        }
        let (mi, name) = sites[self.t.below(sites.len() as u64) as usize].clone();
        let variant = if name.chars().any(|c| c.is_ascii_uppercase()) { name.to_ascii_lowercase() } else { name.to_ascii_uppercase() };
        if variant == name || self.prog.mods[mi].items.iter().any(|i| i.name() == variant) {
            return;
        }
        self.prog.mods[mi].items.push(Item::Type(TypeDef {
            vis: true,
            name: variant,
            fields: vec![Field::new("a", Ty::n("u32")), Field::new("b", Ty::n("u32"))],
            ..Default::default()
        }));
    }

    /// an enum over something that is not an integer type (bool, a float, void, a user type, an extern type)
    fn odd_enum_base(&mut self) {
        let mut bases: Vec<String> = ["bool", "f32", "f64", "void"].iter().map(|s| s.to_string()).collect();
        let mut sites = vec![];
        for (mi, m) in self.prog.mods.iter().enumerate() {
            for (ii, it) in m.items.iter().enumerate() {
                match it {
                    Item::Enum(_) => sites.push((mi, ii)),
                    Item::Type(t) => bases.push(t.name.clone()),
                }
            }
            bases.extend(m.ext_types.iter().map(|e| e.name.clone()));
            bases.extend(m.enums().map(|e| e.name.clone()));
        }
        if sites.is_empty() {
            return;
        }
        let (mi, ii) = sites[self.t.below(sites.len() as u64) as usize];
        let b = bases[self.t.below(bases.len() as u64) as usize].clone();
        if let Item::Enum(e) = &mut self.prog.mods[mi].items[ii] {
            if e.name != b {
                e.base = b;
            }
        }
    }

    /// a second function of the same name in the same impl block
    fn clash_dup_impl_fn(&mut self) {
        let sites: Vec<(usize, usize, usize)> = self
            .prog
            .mods
            .iter()
            .enumerate()
            .flat_map(|(mi, m)| m.impls.iter().enumerate().flat_map(move |(k, im)| (0..im.funcs.len()).map(move |fi| (mi, k, fi))))
            .collect();
        if sites.is_empty() {
            return;
        }
        let (mi, k, fi) = sites[self.t.below(sites.len() as u64) as usize];
        let mut f = self.prog.mods[mi].impls[k].funcs[fi].clone();
        let a = self.address();
        f.addr = Some(self.num(a));
        if self.t.chance(1, 2) {
            // an overload: one more parameter
            f.args.push(Arg::Named("pv_extra".into(), Ty::n("u32")));
        }
        self.prog.mods[mi].impls[k].funcs.push(f);
    }

    /// the derived type declares, with its own address, a function it inherits from a base
    /// (same name; same signature or one more parameter)
    fn clash_redeclare_inherited(&mut self) {
        let mut sites: Vec<(usize, String, Func)> = vec![];
        for (mi, m) in self.prog.mods.iter().enumerate() {
            for td in m.types() {
                for bf in td.fields.iter().filter(|f| f.base) {
                    let Ty::Named(bn) = &bf.ty else { continue };
                    // base type in the same module: the signature then reads the same in both scopes
                    for im in m.impls.iter().filter(|im| &im.ty == bn) {
                        for f in &im.funcs {
                            sites.push((mi, td.name.clone(), f.clone()));
                        }
                    }
                    if let Some(bt) = m.types().find(|t| &t.name == bn) {
                        if let Some(v) = &bt.vft {
                            for f in &v.funcs {
                                sites.push((mi, td.name.clone(), f.clone()));
                            }
                        }
                    }
                }
            }
        }
        if sites.is_empty() {
            return;
        }
        let (mi, tn, mut f) = sites[self.t.below(sites.len() as u64) as usize].clone();
        let a = self.address();
        f.addr = Some(self.num(a));
        f.index = None;
        f.vis = true;
        if self.t.chance(1, 4) {
            f.args.push(Arg::Named("pv_extra".into(), Ty::n("u32")));
        }
        match self.prog.mods[mi].impls.iter_mut().find(|im| im.ty == tn) {
            Some(im) => im.funcs.push(f),
            None => self.prog.mods[mi].impls.push(Impl { more: vec![], ty: tn, funcs: vec![f] }),
        }
    }

    /// two fields / cases / parameters / virtual functions of one name in one item
    fn clash_duplicate_member(&mut self) {
        let nm = self.prog.mods.len() as u64;
        let mi = self.t.below(nm) as usize;
        let ni = self.prog.mods[mi].items.len() as u64;
        if ni == 0 {
            return;
        }
        let ii = self.t.below(ni) as usize;
        let which = self.t.below(3);
        match &mut self.prog.mods[mi].items[ii] {
            Item::Enum(e) => {
                let k = self.t.below(e.variants.len() as u64) as usize;
                let mut v = e.variants[k].clone();
                v.value = None;
                v.default = false;
                e.variants.push(v);
            }
            Item::Type(td) => {
                if which == 0 {
                    let named: Vec<usize> = (0..td.fields.len()).filter(|&i| td.fields[i].name != "_" && !td.fields[i].base).collect();
                    if named.is_empty() {
                        return;
                    }
                    let k = named[self.t.below(named.len() as u64) as usize];
                    let mut f = td.fields[k].clone();
                    f.addr = None;
                    f.ty = Ty::n("u8");
                    td.fields.push(f);
                    // keep a declared size out of the way
                    td.size = None;
                } else if which == 1 {
                    if let Some(v) = &mut td.vft {
                        if v.funcs.is_empty() {
                            return;
                        }
                        let k = self.t.below(v.funcs.len() as u64) as usize;
                        let mut f = v.funcs[k].clone();
                        f.index = None;
                        v.funcs.push(f);
                        v.size = None;
                    }
                } else {
                    let mut fs: Vec<&mut Func> = vec![];
                    if let Some(v) = &mut td.vft {
                        fs.extend(v.funcs.iter_mut());
                    }
                    let tn = td.name.clone();
                    let _ = td;
                    let mut rest: Vec<&mut Func> = vec![];
                    std::mem::swap(&mut rest, &mut fs);
                    drop(fs);
                    Self::dup_param(self.t, rest, &tn);
                }
            }
        }
        if which == 2 {
            // also among the impl functions of the module
            let fs: Vec<&mut Func> = self.prog.mods[mi].impls.iter_mut().flat_map(|im| im.funcs.iter_mut()).collect();
            if self.t.chance(1, 2) {
                Self::dup_param(self.t, fs, "");
            }
        }
    }

    fn dup_param(t: &mut Tape, mut fs: Vec<&mut Func>, _owner: &str) {
        let cands: Vec<usize> = (0..fs.len()).filter(|&i| fs[i].args.iter().any(|a| matches!(a, Arg::Named(..)))).collect();
        if cands.is_empty() {
            return;
        }
        let k = cands[t.below(cands.len() as u64) as usize];
        let dup = fs[k].args.iter().rev().find(|a| matches!(a, Arg::Named(..))).cloned().unwrap();
        fs[k].args.push(dup);
    }

    /// give a field, impl function, virtual function, enum case, parameter or extern value a name
    /// that is already in use somewhere in the program or that the backend generates itself
    fn clash_rename(&mut self, fields_only: bool) {
        let mut names: Vec<String> = ["vftable", "get", "as_ref", "as_mut", "clone", "default", "fmt", "_vfunc_0", "_vfunc_1", "_field_0", "_field_4", "_field_8", "this", "self_", "f", "ptr", "new", "drop", "transmute", "std", "core", "crate_"]
            .iter()
            .map(|s| s.to_string())
            .collect();
        #[derive(Clone, Copy)]
        enum Site {
            Field(usize, usize, usize),
            ImplFn(usize, usize, usize),
            VFn(usize, usize, usize),
            Variant(usize, usize, usize),
            ImplParam(usize, usize, usize, usize),
            VParam(usize, usize, usize, usize),
            ExtVal(usize, usize),
        }
        let mut sites: Vec<Site> = vec![];
        for (mi, m) in self.prog.mods.iter().enumerate() {
            for (ii, it) in m.items.iter().enumerate() {
                names.push(it.name().to_string());
                match it {
                    Item::Type(td) => {
                        names.push(format!("{}Vftable", td.name));
                        for (fi, f) in td.fields.iter().enumerate() {
                            if f.name != "_" {
                                names.push(f.name.clone());
                                names.push(format!("{}_{}", f.name, "shared0"));
                                // base fields keep their program-wide unique names: the same base field name
                                // on two levels of a hierarchy is known finding F19
                                if !f.base {
                                    sites.push(Site::Field(mi, ii, fi));
                                }
                            }
                        }
                        if let Some(v) = &td.vft {
                            for (fi, f) in v.funcs.iter().enumerate() {
                                names.push(f.name.clone());
                                sites.push(Site::VFn(mi, ii, fi));
                                for (ai, a) in f.args.iter().enumerate() {
                                    if let Arg::Named(n, _) = a {
                                        names.push(n.clone());
                                        sites.push(Site::VParam(mi, ii, fi, ai));
                                    }
                                }
                            }
                        }
                    }
                    Item::Enum(e) => {
                        for (vi, v) in e.variants.iter().enumerate() {
                            names.push(v.name.clone());
                            sites.push(Site::Variant(mi, ii, vi));
                        }
                    }
                }
            }
            for (k, im) in m.impls.iter().enumerate() {
                for (fi, f) in im.funcs.iter().enumerate() {
                    names.push(f.name.clone());
                    sites.push(Site::ImplFn(mi, k, fi));
                    for (ai, a) in f.args.iter().enumerate() {
                        if let Arg::Named(n, _) = a {
                            names.push(n.clone());
                            sites.push(Site::ImplParam(mi, k, fi, ai));
                        }
                    }
                }
            }
            for (k, ev) in m.ext_vals.iter().enumerate() {
                names.push(ev.name.clone());
                names.push(format!("get_{}", ev.name));
                sites.push(Site::ExtVal(mi, k));
            }
        }
        if fields_only {
            sites.retain(|s| matches!(s, Site::Field(..)));
        }
        if sites.is_empty() {
            return;
        }
        names.sort();
        names.dedup();
        let site = sites[self.t.below(sites.len() as u64) as usize];
        let name = names[self.t.below(names.len() as u64) as usize].clone();
        let set_param = |f: &mut Func, ai: usize, name: String| {
            if let Arg::Named(n, _) = &mut f.args[ai] {
                *n = name;
            }
        };
        match site {
            Site::Field(mi, ii, fi) => {
                if let Item::Type(td) = &mut self.prog.mods[mi].items[ii] {
                    td.fields[fi].name = name;
                }
            }
            Site::ImplFn(mi, k, fi) => self.prog.mods[mi].impls[k].funcs[fi].name = name,
            Site::VFn(mi, ii, fi) => {
                if let Item::Type(td) = &mut self.prog.mods[mi].items[ii] {
                    td.vft.as_mut().unwrap().funcs[fi].name = name;
                }
            }
            Site::Variant(mi, ii, vi) => {
                if let Item::Enum(e) = &mut self.prog.mods[mi].items[ii] {
                    e.variants[vi].name = name;
                }
            }
            Site::ImplParam(mi, k, fi, ai) => set_param(&mut self.prog.mods[mi].impls[k].funcs[fi], ai, name),
            Site::VParam(mi, ii, fi, ai) => {
                if let Item::Type(td) = &mut self.prog.mods[mi].items[ii] {
                    set_param(&mut td.vft.as_mut().unwrap().funcs[fi], ai, name);
                }
            }
            Site::ExtVal(mi, k) => self.prog.mods[mi].ext_vals[k].name = name,
        }
    }
}

pub fn gen_prog(t: &mut Tape, cfg: GenCfg) -> (Prog, Vec<Known>, BTreeMap<String, u64>) {
    Gen::new(t, cfg).run()
}
