//! L3: execute the emitted wrappers on the x86-64 host against recording stubs.
//!
//! One driver per program.  Test code is placed in a child module `__pv` of every
//! emitted module (so that private methods can be called); the run-time support
//! lives in the crate root.  Every test prints one JSON line; the harness compares
//! the lines with expectations computed from the reference model.

use std::collections::BTreeMap;

use serde_json::{json, Value};

use crate::l2::*;
use crate::model::*;
use crate::pipeline::Built;
use crate::refmodel::*;
use crate::tape::Mix;

pub const RT: &str = r#"
pub mod rt {
    use std::arch::global_asm;

    // [0] stub id (r11), [1..=6] rdi rsi rdx rcx r8 r9, [7..=10] stack slots, [11] call count, [12] value to return
    #[no_mangle]
    pub static mut PV_REC: [u64; 16] = [0; 16];

    global_asm!(
        ".global pv_recorder",
        "pv_recorder:",
        "lea rax, [rip + {rec}]",
        "mov [rax + 0], r11",
        "mov [rax + 8], rdi",
        "mov [rax + 16], rsi",
        "mov [rax + 24], rdx",
        "mov [rax + 32], rcx",
        "mov [rax + 40], r8",
        "mov [rax + 48], r9",
        "mov r10, [rsp + 8]",
        "mov [rax + 56], r10",
        "mov r10, [rsp + 16]",
        "mov [rax + 64], r10",
        "mov r10, [rsp + 24]",
        "mov [rax + 72], r10",
        "mov r10, [rsp + 32]",
        "mov [rax + 80], r10",
        "add qword ptr [rax + 88], 1",
        "mov rax, [rax + 96]",
        "ret",
        rec = sym PV_REC,
    );

    extern "C" {
        fn pv_recorder();
        fn mmap(addr: *mut u8, len: usize, prot: i32, flags: i32, fd: i32, off: i64) -> *mut u8;
    }

    const PROT_RWX: i32 = 1 | 2 | 4;
    const MAP_PRIVATE: i32 = 0x02;
    const MAP_ANONYMOUS: i32 = 0x20;
    const MAP_FIXED_NOREPLACE: i32 = 0x100000;

    static mut MAPPED: Vec<(usize, usize)> = Vec::new();

    /// Map [addr, addr+len) (page granular), zero-filled. false when the range cannot be mapped.
    pub unsafe fn map_at(addr: usize, len: usize) -> bool {
        let start = addr & !0xfff;
        let end = (addr + len + 0xfff) & !0xfff;
        let mut page = start;
        while page < end {
            let already = (*std::ptr::addr_of!(MAPPED)).iter().any(|(s, e)| page >= *s && page < *e);
            if !already {
                let p = mmap(page as *mut u8, 0x1000, PROT_RWX, MAP_PRIVATE | MAP_ANONYMOUS | MAP_FIXED_NOREPLACE, -1, 0);
                if p as usize != page {
                    return false;
                }
                (*std::ptr::addr_of_mut!(MAPPED)).push((page, page + 0x1000));
            }
            page += 0x1000;
        }
        true
    }

    unsafe fn write_trampoline(at: *mut u8, id: u64) {
        // movabs r11, id ; movabs rax, recorder ; jmp rax
        let rec = pv_recorder as usize as u64;
        let mut code = vec![0x49u8, 0xBB];
        code.extend_from_slice(&id.to_le_bytes());
        code.extend_from_slice(&[0x48, 0xB8]);
        code.extend_from_slice(&rec.to_le_bytes());
        code.extend_from_slice(&[0xFF, 0xE0]);
        std::ptr::copy_nonoverlapping(code.as_ptr(), at, code.len());
    }

    /// Plant a recording stub at the exact address.
    pub unsafe fn plant(addr: usize, id: u64) -> bool {
        if !map_at(addr, 32) {
            return false;
        }
        write_trampoline(addr as *mut u8, id);
        true
    }

    /// A fake vftable: `len` stubs with ids base+slot. Returns the table's address (leaked).
    pub unsafe fn make_table(len: usize, base: u64) -> usize {
        let bytes = (len.max(1) * 32 + 0xfff) & !0xfff;
        let code = mmap(std::ptr::null_mut(), bytes, PROT_RWX, MAP_PRIVATE | MAP_ANONYMOUS, -1, 0);
        assert!(!code.is_null() && code as isize != -1, "mmap for table failed");
        let mut table: Vec<usize> = Vec::with_capacity(len.max(1));
        for slot in 0..len {
            let at = code.add(slot * 32);
            write_trampoline(at, base + slot as u64);
            table.push(at as usize);
        }
        let p = table.as_ptr() as usize;
        std::mem::forget(table);
        p
    }

    /// Zeroed, 64-byte aligned storage (leaked).
    pub unsafe fn zeroed(size: usize, align: usize) -> *mut u8 {
        let l = std::alloc::Layout::from_size_align(size.max(8) + 64, align.max(64)).unwrap();
        std::alloc::alloc_zeroed(l)
    }

    pub unsafe fn reset(ret: u64) {
        let r = std::ptr::addr_of_mut!(PV_REC);
        for i in 0..12 {
            (*r)[i] = 0;
        }
        (*r)[0] = u64::MAX;
        (*r)[12] = ret;
    }

    pub unsafe fn report(test: usize, kind: &str, obj: usize, ret: u64) {
        let r = std::ptr::addr_of!(PV_REC);
        let a = &(*r);
        println!(
            "{{\"test\":{},\"kind\":\"{}\",\"calls\":{},\"stub\":{},\"args\":[{},{},{},{},{},{},{},{},{},{}],\"obj\":{},\"ret\":{}}}",
            test, kind, a[11], a[0], a[1], a[2], a[3], a[4], a[5], a[6], a[7], a[8], a[9], a[10], obj, ret
        );
    }

    pub fn value(test: usize, kind: &str, name: &str, v: i128) {
        println!("{{\"test\":{},\"kind\":\"{}\",\"name\":\"{}\",\"value\":\"{}\"}}", test, kind, name, v);
    }

    pub fn skip(test: usize, why: &str) {
        println!("{{\"test\":{},\"kind\":\"skip\",\"why\":\"{}\"}}", test, why);
    }

    pub struct Probe<D, B>(pub std::marker::PhantomData<(D, B)>);
    pub trait NoImpl {
        const IMPL: bool = false;
    }
    impl<D, B> NoImpl for Probe<D, B> {}
    impl<D: AsRef<B> + AsMut<B>, B> Probe<D, B> {
        pub const IMPL: bool = true;
    }
}
"#;

#[derive(Clone, Debug)]
pub struct Expect {
    pub test: usize,
    /// own | vfunc | vftable | forward | asref | asref_absent | singleton | extern | enum
    pub kind: String,
    pub what: String,
    /// call tests: expected stub id, receiver offset from obj (None = no receiver), argument (value, mask)
    pub stub: Option<u64>,
    pub recv_off: Option<u64>,
    pub args: Vec<(u64, u64)>,
    /// expected returned value and mask (None = unit)
    pub ret: Option<(u64, u64)>,
    /// value tests: name -> expected
    pub values: Vec<(String, i128)>,
}

fn mask_of(bits: u64) -> u64 {
    if bits >= 64 {
        u64::MAX
    } else {
        (1u64 << bits) - 1
    }
}

/// bits of an integer / pointer type usable in L3 signatures; None = unsupported
pub fn sig_bits(model: &Model, mi: usize, t: &Ty) -> Option<u64> {
    match t {
        Ty::CPtr(_) | Ty::MPtr(_) => Some(64),
        Ty::Named(n) => match model.bind(mi, n)? {
            Bind::Builtin(b) => match b.as_str() {
                "u8" | "i8" | "bool" => Some(8),
                "u16" | "i16" => Some(16),
                "u32" | "i32" => Some(32),
                "u64" | "i64" => Some(64),
                _ => None,
            },
            _ => None,
        },
        _ => None,
    }
}

fn is_bool(model: &Model, mi: usize, t: &Ty) -> bool {
    matches!(t, Ty::Named(n) if matches!(model.bind(mi, n), Some(Bind::Builtin(b)) if b == "bool"))
}

pub struct Driver {
    pub expects: Vec<Expect>,
    /// per output file: test functions' source
    pub code: BTreeMap<String, String>,
    /// calls from main, in order
    pub calls: Vec<String>,
    pub setup: Vec<String>,
    pub skipped_sigs: usize,
    planted: std::collections::BTreeSet<u64>,
}

fn arg_value(mix: &mut Mix, bits: u64, boolean: bool) -> u64 {
    if boolean {
        return mix.below(2);
    }
    let v = match mix.below(4) {
        0 => mix.next(),
        1 => mix.next() | 0x8000_0000_8000_8080,
        2 => mix.below(256),
        _ => mix.next() >> mix.below(60),
    };
    v & mask_of(bits)
}

/// Resolve where a forwarding method finally lands: (stub kind, receiver offset, func)
enum Landing {
    Address { addr: u64, off: u64 },
    /// `sub_off`: offset of the sub-object the callee sees as receiver; `vptr_off`: where (in the whole object) the
    /// table pointer it dispatches through is stored
    Slot { slot: u64, sub_off: u64, vptr_off: u64, table_len: u64 },
}

impl Driver {
    pub fn new() -> Driver {
        Driver {
            expects: vec![],
            code: BTreeMap::new(),
            calls: vec![],
            setup: vec![],
            skipped_sigs: 0,
            planted: Default::default(),
        }
    }

    fn field_offset(model: &mut Model, m: usize, i: usize, field: &str) -> Option<(u64, (usize, usize))> {
        let Item::Type(td) = model.prog.mods[m].items[i].clone() else { return None };
        let l = model.layout(m, i).ok()?;
        let k = td.fields.iter().position(|f| f.name == field)?;
        let Ty::Named(n) = &td.fields[k].ty else { return None };
        let Some(Bind::Item(bm, bi)) = model.bind(m, n) else { return None };
        Some((l.fields[k].offset, (bm, bi)))
    }

    fn landing(model: &mut Model, m: usize, i: usize, meth: &Method, off: u64) -> Option<Landing> {
        match &meth.origin {
            Origin::Own => Some(Landing::Address {
                addr: meth.func.addr.as_ref()?.u(),
                off,
            }),
            Origin::Vfunc { slot } => {
                let (v, _, _) = model.effective_vft(m, i)?;
                let within = Self::vptr_offset(model, m, i, 0).unwrap_or(0);
                Some(Landing::Slot {
                    slot: *slot,
                    sub_off: off,
                    vptr_off: off + within,
                    table_len: vft_slots(&v).len,
                })
            }
            Origin::Forward { field, orig } => {
                let (foff, (bm, bi)) = Self::field_offset(model, m, i, field)?;
                let bs = model.surface(bm, bi);
                let target = bs.assoc.iter().chain(bs.vfuncs.iter()).find(|x| x.name == *orig)?.clone();
                Self::landing(model, bm, bi, &target, off + foff)
            }
        }
    }

    /// Emit the call test for one method. `kind` is own / vfunc / forward.
    #[allow(clippy::too_many_arguments)]
    fn call_test(&mut self, model: &mut Model, mi: usize, ii: usize, td: &TypeDef, meth: &Method, kind: &str, size: u64, align: u64, mix: &mut Mix, file: &str) {
        let f = &meth.func;
        // signature must be observable
        let mut bits = vec![];
        for a in &f.args {
            if let Arg::Named(_, t) = a {
                match sig_bits(model, meth.scope_mod, t) {
                    Some(b) => bits.push((b, is_bool(model, meth.scope_mod, t), model.rust_ty_src(meth.scope_mod, t).unwrap_or_default())),
                    None => {
                        self.skipped_sigs += 1;
                        return;
                    }
                }
            }
        }
        let ret_info = match &f.ret {
            None => None,
            Some(t) => match sig_bits(model, meth.scope_mod, t) {
                Some(b) => Some((b, is_bool(model, meth.scope_mod, t), model.rust_ty_src(meth.scope_mod, t).unwrap_or_default(), t.is_ptr())),
                None => {
                    self.skipped_sigs += 1;
                    return;
                }
            },
        };
        if bits.len() + f.has_self() as usize > 10 {
            self.skipped_sigs += 1;
            return;
        }
        let Some(landing) = Self::landing(model, mi, ii, meth, 0) else {
            self.skipped_sigs += 1;
            return;
        };
        let test = self.expects.len();
        let mut body = String::new();
        let fname = format!("pv_test_{test}");
        body.push_str(&format!("    pub unsafe fn {fname}() {{\n"));
        body.push_str(&format!("        let obj = crate::rt::zeroed({size}, {align}) as *mut {};\n", td.name));
        // where does the call land
        let (stub, recv_off) = match &landing {
            Landing::Address { addr, off } => {
                if self.planted.insert(*addr) {
                    self.setup.push(format!("    if !rt::plant({addr:#x}usize, {addr:#x}u64) {{ rt::skip(usize::MAX, \"cannot map {addr:#x}\"); }}"));
                }
                (*addr, *off)
            }
            Landing::Slot { slot, sub_off, vptr_off, table_len } => {
                let base = 0x7ab1e_0000u64 + (test as u64) * 0x1000;
                body.push_str(&format!("        let table = crate::rt::make_table({table_len}, {base:#x}u64);\n"));
                body.push_str(&format!("        ((obj as *mut u8).add({vptr_off}) as *mut usize).write_unaligned(table);\n"));
                (base + slot, *sub_off)
            }
        };
        let mut arg_src = vec![];
        let mut exp_args = vec![];
        for (b, boolean, src) in &bits {
            let v = arg_value(mix, *b, *boolean);
            if *boolean {
                arg_src.push(format!("{}", v != 0));
            } else if src.starts_with('*') {
                arg_src.push(format!("({v:#x}u64 as usize as {src})"));
            } else {
                arg_src.push(format!("({v:#x}u64 as {src})"));
            }
            exp_args.push((v, mask_of(*b)));
        }
        let retv = match &ret_info {
            Some((b, boolean, _, _)) => arg_value(mix, *b, *boolean),
            None => mix.next(),
        };
        body.push_str(&format!("        crate::rt::reset({retv:#x}u64);\n"));
        let recv = if f.has_self() {
            if f.args.iter().any(|a| matches!(a, Arg::MutSelf)) {
                "(&mut *obj)."
            } else {
                "(&*obj)."
            }
            .to_string()
        } else {
            format!("{}::", td.name)
        };
        let call = format!("{recv}{}({})", meth.name, arg_src.join(", "));
        match &ret_info {
            None => {
                body.push_str(&format!("        let _r: () = {call};\n        let ret = 0u64;\n"));
            }
            Some((_, _, src, is_ptr)) => {
                body.push_str(&format!("        let r: {src} = {call};\n"));
                if *is_ptr {
                    body.push_str("        let ret = r as usize as u64;\n");
                } else {
                    body.push_str("        let ret = r as u64;\n");
                }
            }
        }
        body.push_str(&format!("        crate::rt::report({test}, \"{kind}\", obj as usize, ret);\n    }}\n"));
        self.code.entry(file.to_string()).or_default().push_str(&body);
        let modpath = file.trim_end_matches(".rs").replace('/', "::");
        self.calls.push(format!("    {modpath}::__pvt::{fname}();"));
        self.expects.push(Expect {
            test,
            kind: kind.to_string(),
            what: format!("{}::{} ({})", td.name, meth.name, prog_sig(f)),
            stub: Some(stub),
            recv_off: if f.has_self() { Some(recv_off) } else { None },
            args: exp_args,
            ret: ret_info.as_ref().map(|(b, _, _, _)| (retv & mask_of(*b), mask_of(*b))),
            values: vec![],
        });
        // for vfunc-landing calls: a second call with a different table catches wrappers bound to a fixed entry
        if let Landing::Slot { slot, sub_off, vptr_off, table_len } = &landing {
            let test2 = self.expects.len();
            let fname2 = format!("pv_test_{test2}");
            let base2 = 0x9cafe_0000u64 + (test2 as u64) * 0x1000;
            let mut b2 = String::new();
            b2.push_str(&format!("    pub unsafe fn {fname2}() {{\n"));
            b2.push_str(&format!("        let obj = crate::rt::zeroed({size}, {align}) as *mut {};\n", td.name));
            b2.push_str(&format!("        let table = crate::rt::make_table({table_len}, {base2:#x}u64);\n"));
            b2.push_str(&format!("        ((obj as *mut u8).add({vptr_off}) as *mut usize).write_unaligned(table);\n"));
            b2.push_str(&format!("        crate::rt::reset({retv:#x}u64);\n"));
            match &ret_info {
                None => b2.push_str(&format!("        let _r: () = {call};\n        let ret = 0u64;\n")),
                Some((_, _, src, is_ptr)) => {
                    b2.push_str(&format!("        let r: {src} = {call};\n"));
                    b2.push_str(if *is_ptr { "        let ret = r as usize as u64;\n" } else { "        let ret = r as u64;\n" });
                }
            }
            b2.push_str(&format!("        crate::rt::report({test2}, \"{kind}\", obj as usize, ret);\n    }}\n"));
            self.code.entry(file.to_string()).or_default().push_str(&b2);
            self.calls.push(format!("    {modpath}::__pvt::{fname2}();"));
            let mut e2 = self.expects[test].clone();
            e2.test = test2;
            e2.stub = Some(base2 + slot);
            e2.what = format!("{} [second table]", e2.what);
            self.expects.push(e2);
        }
    }

    fn value_test(&mut self, file: &str, kind: &str, what: String, body_lines: Vec<String>, values: Vec<(String, i128)>) {
        let test = self.expects.len();
        let fname = format!("pv_test_{test}");
        let mut body = format!("    pub unsafe fn {fname}() {{\n        let test = {test}usize;\n");
        for l in body_lines {
            body.push_str("        ");
            body.push_str(&l);
            body.push('\n');
        }
        body.push_str("    }\n");
        self.code.entry(file.to_string()).or_default().push_str(&body);
        let modpath = file.trim_end_matches(".rs").replace('/', "::");
        self.calls.push(format!("    {modpath}::__pvt::{fname}();"));
        self.expects.push(Expect {
            test,
            kind: kind.to_string(),
            what,
            stub: None,
            recv_off: None,
            args: vec![],
            ret: None,
            values,
        });
    }

    /// All transitive bases of a type: (field path offset, bound item, type source)
    /// Offset of the vftable pointer a type uses: 0 when it owns the pointer, else the offset of its first
    /// base plus that base's own answer.
    fn vptr_offset(model: &mut Model, mi: usize, ii: usize, depth: usize) -> Option<u64> {
        if depth > 16 {
            return None;
        }
        let lay = model.layout(mi, ii).ok()?;
        if lay.owns_vptr {
            return Some(0);
        }
        let Item::Type(td) = &model.prog.mods[mi].items[ii] else { return None };
        let (f, fl) = td.fields.iter().zip(lay.fields.iter()).find(|(f, _)| f.base)?;
        let Ty::Named(n) = &f.ty else { return None };
        let n = n.clone();
        let off = fl.offset;
        match model.bind(mi, &n) {
            Some(Bind::Item(bm, bi)) => Some(off + Self::vptr_offset(model, bm, bi, depth + 1)?),
            _ => None,
        }
    }

    /// every direct and transitive base sub-object: (offset in the whole object, crate path of its type);
    /// bases of extern type are leaves
    fn bases(model: &mut Model, m: usize, i: usize, off: u64, out: &mut Vec<(u64, String)>) {
        let Item::Type(td) = model.prog.mods[m].items[i].clone() else { return };
        let Ok(l) = model.layout(m, i) else { return };
        for (k, f) in td.fields.iter().enumerate() {
            if !f.base {
                continue;
            }
            let Ty::Named(n) = &f.ty else { continue };
            match model.bind(m, n) {
                Some(Bind::Item(bm, bi)) => {
                    if !matches!(model.prog.mods[bm].items[bi], Item::Type(_)) {
                        continue;
                    }
                    out.push((off + l.fields[k].offset, format!("crate::{}", model.bind_path(&Bind::Item(bm, bi)))));
                    Self::bases(model, bm, bi, off + l.fields[k].offset, out);
                }
                Some(b @ Bind::Ext(..)) => out.push((off + l.fields[k].offset, format!("crate::{}", model.bind_path(&b)))),
                _ => {}
            }
        }
    }

    pub fn build(prog: &Prog, seed: u64) -> Driver {
        let w = 8;
        let mut model = Model::new(prog, w);
        let mut d = Driver::new();
        let mut mix = Mix(seed);
        for (mi, m) in prog.mods.iter().enumerate() {
            let file = m.out_path();
            for (ii, it) in m.items.iter().enumerate() {
                match it {
                    Item::Type(td) => {
                        let Ok(lay) = model.layout(mi, ii) else { continue };
                        let surf = model.surface(mi, ii);
                        for meth in &surf.vfuncs {
                            if !meth.name.starts_with('_') {
                                d.call_test(&mut model, mi, ii, td, meth, "vfunc", lay.size, lay.align, &mut mix, &file);
                            }
                        }
                        for meth in &surf.assoc {
                            if meth.name.starts_with('_') {
                                continue;
                            }
                            let kind = match meth.origin {
                                Origin::Own => "own",
                                Origin::Forward { .. } => "forward",
                                Origin::Vfunc { .. } => "vfunc",
                            };
                            d.call_test(&mut model, mi, ii, td, meth, kind, lay.size, lay.align, &mut mix, &file);
                        }
                        // vftable accessor returns the word at offset 0
                        if lay.has_vft {
                            // where the shared pointer lives: at 0 in the type that owns it, else inside the
                            // chain of first bases, each at its own offset
                            let vptr_off = Self::vptr_offset(&mut model, mi, ii, 0).unwrap_or(0);
                            let marker = 0x7000_0000_0000u64 + mix.below(1 << 40) * 8;
                            d.value_test(
                                &file,
                                "vftable",
                                format!("{}::vftable()", td.name),
                                vec![
                                    format!("let obj = crate::rt::zeroed({}, {}) as *mut {};", lay.size, lay.align, td.name),
                                    format!("((obj as *mut u8).add({vptr_off}) as *mut usize).write_unaligned({marker:#x}usize);"),
                                    "crate::rt::value(test, \"vftable\", \"returned\", (&*obj).vftable() as usize as i128);".to_string(),
                                ],
                                vec![("returned".into(), marker as i128)],
                            );
                        }
                        // conversions to bases
                        let mut bs = vec![];
                        Self::bases(&mut model, mi, ii, 0, &mut bs);
                        let mut count: BTreeMap<String, usize> = BTreeMap::new();
                        for (_, b) in &bs {
                            *count.entry(b.clone()).or_insert(0) += 1;
                        }
                        for (off, bpath) in &bs {
                            if count[bpath] == 1 {
                                d.value_test(
                                    &file,
                                    "asref",
                                    format!("{} as {}", td.name, bpath),
                                    vec![
                                        format!("let obj = crate::rt::zeroed({}, {}) as *mut {};", lay.size, lay.align, td.name),
                                        format!("let r: &{bpath} = ::std::convert::AsRef::<{bpath}>::as_ref(&*obj);"),
                                        "crate::rt::value(test, \"asref\", \"as_ref\", (r as *const _ as usize - obj as usize) as i128);".to_string(),
                                        format!("let r: &mut {bpath} = ::std::convert::AsMut::<{bpath}>::as_mut(&mut *obj);"),
                                        "crate::rt::value(test, \"asref\", \"as_mut\", (r as *mut _ as usize - obj as usize) as i128);".to_string(),
                                    ],
                                    vec![("as_ref".into(), *off as i128), ("as_mut".into(), *off as i128)],
                                );
                            }
                        }
                        let mut seen = std::collections::BTreeSet::new();
                        for (_, bpath) in &bs {
                            if count[bpath] > 1 && seen.insert(bpath.clone()) {
                                d.value_test(
                                    &file,
                                    "asref_absent",
                                    format!("{} as {} (occurs {} times)", td.name, bpath, count[bpath]),
                                    vec![format!("crate::rt::value(test, \"asref_absent\", \"impl\", {{ use crate::rt::NoImpl; <crate::rt::Probe<{}, {bpath}>>::IMPL }} as i128);", td.name)],
                                    vec![("impl".into(), 0)],
                                );
                            }
                        }
                        // singleton
                        if let Some(a) = &td.singleton {
                            let a = a.u();
                            d.value_test(
                                &file,
                                "singleton",
                                format!("{}::get() at {a:#x}", td.name),
                                vec![
                                    format!("if !crate::rt::map_at({a:#x}usize, 8) {{ crate::rt::skip(test, \"cannot map\"); return; }}"),
                                    format!("*({a:#x}usize as *mut usize) = 0;"),
                                    format!("crate::rt::value(test, \"singleton\", \"null_is_none\", {}::get().is_none() as i128);", td.name),
                                    format!("let obj = crate::rt::zeroed({}, {}) as *mut {};", lay.size, lay.align, td.name),
                                    format!("*({a:#x}usize as *mut usize) = obj as usize;"),
                                    format!("let r: Option<&'static mut {}> = {}::get();", td.name, td.name),
                                    "crate::rt::value(test, \"singleton\", \"delta\", match r { Some(p) => (p as *mut _ as usize as i128) - (obj as usize as i128), None => -1 });".to_string(),
                                ],
                                vec![("null_is_none".into(), 1), ("delta".into(), 0)],
                            );
                        }
                    }
                    Item::Enum(e) => {
                        let mut lines = vec![];
                        let mut vals = vec![];
                        let mut next: i128 = 0;
                        let bits = builtin_size(&e.base).unwrap_or(4) * 8;
                        let signed = e.base.starts_with('i');
                        for v in &e.variants {
                            let val = v.value.as_ref().map(|n| n.v).unwrap_or(next);
                            next = val + 1;
                            let conv = if bits > 64 { if signed { "i128" } else { "u128" } } else if signed { "i64" } else { "u64" };
                            lines.push(format!("crate::rt::value(test, \"enum\", \"{}\", {}::{} as {conv} as i128);", v.name, e.name, v.name));
                            vals.push((v.name.clone(), val));
                        }
                        lines.push(format!("crate::rt::value(test, \"enum\", \"size_of\", ::std::mem::size_of::<{}>() as i128);", e.name));
                        lines.push(format!("crate::rt::value(test, \"enum\", \"align_of\", ::std::mem::align_of::<{}>() as i128);", e.name));
                        vals.push(("size_of".into(), (bits / 8) as i128));
                        vals.push(("align_of".into(), (bits / 8) as i128));
                        if e.defaultable {
                            if let Some(k) = e.variants.iter().position(|v| v.default) {
                                let conv = if bits > 64 { if signed { "i128" } else { "u128" } } else if signed { "i64" } else { "u64" };
                                lines.push(format!("crate::rt::value(test, \"enum\", \"default\", <{} as ::std::default::Default>::default() as {conv} as i128);", e.name));
                                vals.push(("default".into(), vals[k].1));
                            }
                        }
                        d.value_test(&file, "enum", format!("enum {}", e.name), lines, vals);
                        if let Some(a) = &e.singleton {
                            if e.copyable {
                                let a = a.u();
                                let k = (a as usize) % e.variants.len();
                                let want = {
                                    let mut next: i128 = 0;
                                    let mut val = 0;
                                    for (j, v) in e.variants.iter().enumerate() {
                                        let x = v.value.as_ref().map(|n| n.v).unwrap_or(next);
                                        next = x + 1;
                                        if j == k {
                                            val = x;
                                        }
                                    }
                                    val
                                };
                                let conv = if bits > 64 { if signed { "i128" } else { "u128" } } else if signed { "i64" } else { "u64" };
                                d.value_test(
                                    &file,
                                    "singleton",
                                    format!("{}::get() at {a:#x}", e.name),
                                    vec![
                                        format!("if !crate::rt::map_at({a:#x}usize, 16) {{ crate::rt::skip(test, \"cannot map\"); return; }}"),
                                        format!("::std::ptr::write_unaligned({a:#x}usize as *mut {}, {}::{});", e.name, e.name, e.variants[k].name),
                                        format!("let r: {} = {}::get();", e.name, e.name),
                                        format!("crate::rt::value(test, \"singleton\", \"stored_variant\", r as {conv} as i128);"),
                                    ],
                                    vec![("stored_variant".into(), want)],
                                );
                            }
                        }
                    }
                }
            }
            for ev in &m.ext_vals {
                let Some(a) = &ev.addr else { continue };
                let a = a.u();
                let Some(src) = model.rust_ty_src(mi, &ev.ty) else { continue };
                let size = match model.ty_info(mi, &ev.ty) {
                    TyRes::Ok { size, .. } => size,
                    _ => continue,
                };
                let mut lines = vec![
                    format!("if !crate::rt::map_at({a:#x}usize, {}) {{ crate::rt::skip(test, \"cannot map\"); return; }}", size.max(1)),
                    format!("let r: &'static mut {src} = get_{}();", ev.name),
                    format!("crate::rt::value(test, \"extern\", \"delta\", (r as *mut {src} as usize as i128) - {a:#x}i128);"),
                ];
                let mut vals = vec![("delta".to_string(), 0i128)];
                if size > 0 {
                    lines.push(format!("*(r as *mut {src} as *mut u8) = 0xA7;"));
                    lines.push(format!("crate::rt::value(test, \"extern\", \"written\", *({a:#x}usize as *const u8) as i128);"));
                    vals.push(("written".into(), 0xA7));
                }
                d.value_test(&file, "extern", format!("get_{}() at {a:#x}", ev.name), lines, vals);
            }
        }
        d
    }

    pub fn assemble(self, prog: &Prog, built: &Built) -> (Assembled, Vec<Expect>, usize) {
        let mut app = Appendix::new();
        app.supply_extern_types(prog);
        for (file, code) in &self.code {
            app.item(file, &format!("#[allow(warnings)]\npub mod __pvt {{\n    use super::*;\n{code}}}\n"));
        }
        let mut root = String::new();
        root.push_str(RT);
        root.push_str("fn main() {\n  unsafe {\n");
        for s in &self.setup {
            root.push_str(s);
            root.push('\n');
        }
        for c in &self.calls {
            root.push_str(c);
            root.push('\n');
        }
        root.push_str("  }\n}\n");
        let asm = assemble(&built.files, 8, app, &root, true);
        (asm, self.expects, self.skipped_sigs)
    }
}

fn prog_sig(f: &Func) -> String {
    let mut s = String::new();
    crate::model::print_func(&mut s, "", f);
    s.trim().replace('\n', " ")
}

/// Compare the driver's output with the expectations. Returns per-kind (checked, failures).
pub fn compare(expects: &[Expect], stdout: &str, kinds: &[&str]) -> (usize, usize, Vec<String>) {
    let mut lines: BTreeMap<usize, Vec<Value>> = BTreeMap::new();
    for l in stdout.lines() {
        if let Ok(v) = serde_json::from_str::<Value>(l) {
            if let Some(t) = v["test"].as_u64() {
                lines.entry(t as usize).or_default().push(v);
            }
        }
    }
    let mut checked = 0;
    let mut skipped = 0;
    let mut failures = vec![];
    for e in expects {
        if !kinds.contains(&e.kind.as_str()) {
            continue;
        }
        let got = lines.get(&e.test).cloned().unwrap_or_default();
        if got.iter().any(|v| v["kind"] == "skip") {
            skipped += 1;
            continue;
        }
        if got.is_empty() {
            failures.push(format!("[{}] {}: the driver printed nothing for this test (crashed earlier?)", e.kind, e.what));
            continue;
        }
        checked += 1;
        if let Some(stub) = e.stub {
            let v = &got[0];
            let calls = v["calls"].as_u64().unwrap_or(0);
            if calls != 1 {
                failures.push(format!("[{}] {}: {} calls recorded, expected exactly 1", e.kind, e.what, calls));
                continue;
            }
            let gs = v["stub"].as_u64().unwrap_or(0);
            if gs != stub {
                failures.push(format!("[{}] {}: landed in stub {gs:#x}, expected {stub:#x}", e.kind, e.what));
                continue;
            }
            let args: Vec<u64> = v["args"].as_array().map(|a| a.iter().map(|x| x.as_u64().unwrap_or(0)).collect()).unwrap_or_default();
            let obj = v["obj"].as_u64().unwrap_or(0);
            let mut idx = 0;
            if let Some(off) = e.recv_off {
                if args.first().copied() != Some(obj + off) {
                    failures.push(format!("[{}] {}: receiver {:#x}, expected object {obj:#x} + {off} = {:#x}", e.kind, e.what, args.first().copied().unwrap_or(0), obj + off));
                    continue;
                }
                idx = 1;
            }
            let mut bad = false;
            for (k, (val, mask)) in e.args.iter().enumerate() {
                let g = args.get(idx + k).copied().unwrap_or(0);
                if g & mask != val & mask {
                    failures.push(format!("[{}] {}: argument {k} arrived as {:#x}, expected {:#x} (mask {mask:#x})", e.kind, e.what, g & mask, val & mask));
                    bad = true;
                    break;
                }
            }
            if bad {
                continue;
            }
            if let Some((val, mask)) = e.ret {
                let r = v["ret"].as_u64().unwrap_or(0);
                if r & mask != val & mask {
                    failures.push(format!("[{}] {}: returned {:#x}, callee returned {:#x}", e.kind, e.what, r & mask, val & mask));
                }
            }
        } else {
            for (name, want) in &e.values {
                let g = got.iter().find(|v| v["name"] == name.as_str());
                match g {
                    None => failures.push(format!("[{}] {}: value `{name}` not reported", e.kind, e.what)),
                    Some(v) => {
                        let gv: i128 = v["value"].as_str().and_then(|s| s.parse().ok()).unwrap_or(i128::MIN);
                        if gv != *want {
                            failures.push(format!("[{}] {}: `{name}` = {gv}, expected {want}", e.kind, e.what));
                        }
                    }
                }
            }
        }
    }
    let _ = json!(null);
    (checked, skipped, failures)
}
