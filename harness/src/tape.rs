//! Choice tape: every random decision of every generator is read from a
//! `Vec<u32>` that proptest generated (and shrinks).  An exhausted tape yields
//! zeros, and every generator is written so that zero is the simplest choice.

pub struct Tape<'a> {
    data: &'a [u32],
    pos: usize,
}

impl<'a> Tape<'a> {
    pub fn new(data: &'a [u32]) -> Self {
        Tape { data, pos: 0 }
    }
    pub fn used(&self) -> usize {
        self.pos.min(self.data.len())
    }
    pub fn exhausted(&self) -> bool {
        self.pos >= self.data.len()
    }
    pub fn next(&mut self) -> u32 {
        let v = self.data.get(self.pos).copied().unwrap_or(0);
        self.pos += 1;
        v
    }
    /// Uniform in `0..n`, monotone in the tape value (so shrinking the tape
    /// value shrinks the choice).
    pub fn below(&mut self, n: u64) -> u64 {
        if n <= 1 {
            // still consume nothing: a forced choice costs no entropy
            return 0;
        }
        ((self.next() as u64) * n) >> 32
    }
    pub fn range(&mut self, lo: u64, hi_incl: u64) -> u64 {
        lo + self.below(hi_incl - lo + 1)
    }
    /// true with probability num/den; false is the "simple" side.
    pub fn chance(&mut self, num: u64, den: u64) -> bool {
        self.below(den) >= den - num
    }
    pub fn pick<'b, T>(&mut self, xs: &'b [T]) -> &'b T {
        &xs[self.below(xs.len() as u64) as usize]
    }
    pub fn u64(&mut self) -> u64 {
        ((self.next() as u64) << 32) | self.next() as u64
    }
    /// A size-biased small number: mostly small, sometimes up to `max`.
    pub fn small(&mut self, max: u64) -> u64 {
        let k = self.below(8);
        let cap = match k {
            0..=3 => max.min(4),
            4..=5 => max.min(16),
            6 => max.min(256),
            _ => max,
        };
        self.below(cap + 1)
    }
}

/// splitmix64, used only to expand one *generated* seed into printer styling
/// choices (whitespace, comments, literal spelling).  Deterministic function
/// of its seed; never seeded from the clock.
#[derive(Clone)]
pub struct Mix(pub u64);
impl Mix {
    pub fn next(&mut self) -> u64 {
        self.0 = self.0.wrapping_add(0x9E37_79B9_7F4A_7C15);
        let mut z = self.0;
        z = (z ^ (z >> 30)).wrapping_mul(0xBF58_476D_1CE4_E5B9);
        z = (z ^ (z >> 27)).wrapping_mul(0x94D0_49BB_1331_11EB);
        z ^ (z >> 31)
    }
    pub fn below(&mut self, n: u64) -> u64 {
        if n <= 1 {
            0
        } else {
            self.next() % n
        }
    }
    pub fn chance(&mut self, num: u64, den: u64) -> bool {
        self.below(den) < num
    }
}
