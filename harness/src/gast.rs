//! Mirror of pyxis's whole surface grammar (serde-able), conversion to and from
//! `pyxis::grammar::Module`, a generator over the full grammar and a randomised
//! printer.  The printer shares nothing with pyxis's parser.

use pyxis::grammar as g;
use serde::{Deserialize, Serialize};

use crate::model::Ty;
use crate::tape::{Mix, Tape};

#[derive(Clone, Debug, PartialEq, Eq, Serialize, Deserialize)]
pub enum GExpr {
    Int(i64),
    Str(String),
    Ident(String),
}
#[derive(Clone, Debug, PartialEq, Eq, Serialize, Deserialize)]
pub enum GAttr {
    Ident(String),
    Func(String, Vec<GExpr>),
    Assign(String, GExpr),
}
#[derive(Clone, Debug, PartialEq, Eq, Serialize, Deserialize)]
pub enum GArg {
    ConstSelf,
    MutSelf,
    Named(String, Ty),
}
#[derive(Clone, Debug, PartialEq, Eq, Serialize, Deserialize)]
pub struct GFunc {
    pub attrs: Vec<GAttr>,
    pub vis: bool,
    pub name: String,
    pub args: Vec<GArg>,
    pub ret: Option<Ty>,
}
#[derive(Clone, Debug, PartialEq, Eq, Serialize, Deserialize)]
pub enum GField {
    Field(bool, String, Ty),
    Vftable(Vec<GFunc>),
}
#[derive(Clone, Debug, PartialEq, Eq, Serialize, Deserialize)]
pub struct GStmt {
    pub attrs: Vec<GAttr>,
    pub field: GField,
}
#[derive(Clone, Debug, PartialEq, Eq, Serialize, Deserialize)]
pub struct GEnumStmt {
    pub attrs: Vec<GAttr>,
    pub name: String,
    pub expr: Option<GExpr>,
}
#[derive(Clone, Debug, PartialEq, Eq, Serialize, Deserialize)]
pub enum GDef {
    /// statements; `true` = written as `type T;` (only legal when empty)
    Type(Vec<GStmt>, bool),
    Enum(Ty, Vec<GEnumStmt>),
}
#[derive(Clone, Debug, PartialEq, Eq, Serialize, Deserialize)]
pub enum GItem {
    Use(Vec<String>),
    ExternType(String, Vec<GAttr>),
    ExternValue {
        attrs: Vec<GAttr>,
        vis: bool,
        name: String,
        ty: Ty,
    },
    Def {
        attrs: Vec<GAttr>,
        vis: bool,
        name: String,
        body: GDef,
    },
    Impl {
        attrs: Vec<GAttr>,
        name: String,
        funcs: Vec<GFunc>,
    },
    /// form 0 brace, 1 short prologue, 2 short epilogue
    Backend {
        name: String,
        form: u8,
        prologue: Option<String>,
        epilogue: Option<String>,
    },
}
#[derive(Clone, Debug, PartialEq, Eq, Serialize, Deserialize, Default)]
pub struct GMod {
    pub attrs: Vec<GAttr>,
    pub items: Vec<GItem>,
}

// ------------------------------------------------------------ to grammar

fn ty_to_g(t: &Ty) -> g::Type {
    match t {
        Ty::Named(s) => g::Type::Ident(s.as_str().into()),
        Ty::CPtr(t) => g::Type::ConstPointer(Box::new(ty_to_g(t))),
        Ty::MPtr(t) => g::Type::MutPointer(Box::new(ty_to_g(t))),
        Ty::Arr(t, n) => g::Type::Array(Box::new(ty_to_g(t)), *n as usize),
        Ty::Unk(n) => g::Type::Unknown(*n as usize),
    }
}
fn expr_to_g(e: &GExpr) -> g::Expr {
    match e {
        GExpr::Int(i) => g::Expr::IntLiteral(*i as isize),
        GExpr::Str(s) => g::Expr::StringLiteral(s.clone()),
        GExpr::Ident(s) => g::Expr::Ident(s.as_str().into()),
    }
}
fn attrs_to_g(a: &[GAttr]) -> g::Attributes {
    g::Attributes(
        a.iter()
            .map(|a| match a {
                GAttr::Ident(s) => g::Attribute::Ident(s.as_str().into()),
                GAttr::Func(n, es) => {
                    g::Attribute::Function(n.as_str().into(), es.iter().map(expr_to_g).collect())
                }
                GAttr::Assign(n, e) => g::Attribute::Assign(n.as_str().into(), expr_to_g(e)),
            })
            .collect(),
    )
}
fn vis_to_g(v: bool) -> g::Visibility {
    if v {
        g::Visibility::Public
    } else {
        g::Visibility::Private
    }
}
fn func_to_g(f: &GFunc) -> g::Function {
    g::Function {
        visibility: vis_to_g(f.vis),
        name: f.name.as_str().into(),
        attributes: attrs_to_g(&f.attrs),
        arguments: f
            .args
            .iter()
            .map(|a| match a {
                GArg::ConstSelf => g::Argument::ConstSelf,
                GArg::MutSelf => g::Argument::MutSelf,
                GArg::Named(n, t) => g::Argument::Named(n.as_str().into(), ty_to_g(t)),
            })
            .collect(),
        return_type: f.ret.as_ref().map(ty_to_g),
    }
}

pub fn to_grammar(m: &GMod) -> g::Module {
    let mut out = g::Module::default();
    out.attributes = attrs_to_g(&m.attrs);
    for it in &m.items {
        match it {
            GItem::Use(p) => out
                .uses
                .push(p.iter().map(|s| g::ItemPathSegment::from(s.as_str())).collect()),
            GItem::ExternType(n, a) => out.extern_types.push((n.as_str().into(), attrs_to_g(a))),
            GItem::ExternValue { attrs, vis, name, ty } => out.extern_values.push(g::ExternValue {
                visibility: vis_to_g(*vis),
                name: name.as_str().into(),
                type_: ty_to_g(ty),
                attributes: attrs_to_g(attrs),
            }),
            GItem::Def { attrs, vis, name, body } => {
                let inner = match body {
                    GDef::Type(stmts, _) => g::ItemDefinitionInner::Type(g::TypeDefinition {
                        statements: stmts
                            .iter()
                            .map(|s| g::TypeStatement {
                                attributes: attrs_to_g(&s.attrs),
                                field: match &s.field {
                                    GField::Field(v, n, t) => {
                                        g::TypeField::Field(vis_to_g(*v), n.as_str().into(), ty_to_g(t))
                                    }
                                    GField::Vftable(fs) => {
                                        g::TypeField::Vftable(fs.iter().map(func_to_g).collect())
                                    }
                                },
                            })
                            .collect(),
                        attributes: attrs_to_g(attrs),
                    }),
                    GDef::Enum(t, stmts) => g::ItemDefinitionInner::Enum(g::EnumDefinition {
                        type_: ty_to_g(t),
                        statements: stmts
                            .iter()
                            .map(|s| g::EnumStatement {
                                name: s.name.as_str().into(),
                                expr: s.expr.as_ref().map(expr_to_g),
                                attributes: attrs_to_g(&s.attrs),
                            })
                            .collect(),
                        attributes: attrs_to_g(attrs),
                    }),
                };
                out.definitions.push(g::ItemDefinition {
                    visibility: vis_to_g(*vis),
                    name: name.as_str().into(),
                    inner,
                });
            }
            GItem::Impl { attrs, name, funcs } => out.impls.push(g::FunctionBlock {
                name: name.as_str().into(),
                functions: funcs.iter().map(func_to_g).collect(),
                attributes: attrs_to_g(attrs),
            }),
            GItem::Backend { name, prologue, epilogue, .. } => out.backends.push(g::Backend {
                name: name.as_str().into(),
                prologue: prologue.clone(),
                epilogue: epilogue.clone(),
            }),
        }
    }
    out
}

// ---------------------------------------------------------- from grammar

fn ty_from_g(t: &g::Type) -> Ty {
    match t {
        g::Type::Ident(i) => Ty::Named(i.0.clone()),
        g::Type::ConstPointer(t) => Ty::CPtr(Box::new(ty_from_g(t))),
        g::Type::MutPointer(t) => Ty::MPtr(Box::new(ty_from_g(t))),
        g::Type::Array(t, n) => Ty::Arr(Box::new(ty_from_g(t)), *n as u64),
        g::Type::Unknown(n) => Ty::Unk(*n as u64),
    }
}
fn expr_from_g(e: &g::Expr) -> GExpr {
    match e {
        g::Expr::IntLiteral(i) => GExpr::Int(*i as i64),
        g::Expr::StringLiteral(s) => GExpr::Str(s.clone()),
        g::Expr::Ident(i) => GExpr::Ident(i.0.clone()),
    }
}
fn attrs_from_g(a: &g::Attributes) -> Vec<GAttr> {
    a.0.iter()
        .map(|a| match a {
            g::Attribute::Ident(i) => GAttr::Ident(i.0.clone()),
            g::Attribute::Function(i, es) => GAttr::Func(i.0.clone(), es.iter().map(expr_from_g).collect()),
            g::Attribute::Assign(i, e) => GAttr::Assign(i.0.clone(), expr_from_g(e)),
        })
        .collect()
}
fn func_from_g(f: &g::Function) -> GFunc {
    GFunc {
        attrs: attrs_from_g(&f.attributes),
        vis: f.visibility == g::Visibility::Public,
        name: f.name.0.clone(),
        args: f
            .arguments
            .iter()
            .map(|a| match a {
                g::Argument::ConstSelf => GArg::ConstSelf,
                g::Argument::MutSelf => GArg::MutSelf,
                g::Argument::Named(n, t) => GArg::Named(n.0.clone(), ty_from_g(t)),
            })
            .collect(),
        ret: f.return_type.as_ref().map(ty_from_g),
    }
}

/// Grouped by kind (the grammar does not record interleaving).
pub fn from_grammar(m: &g::Module) -> GMod {
    let mut items = vec![];
    for u in &m.uses {
        items.push(GItem::Use(u.iter().map(|s| s.as_str().to_string()).collect()));
    }
    for (n, a) in &m.extern_types {
        items.push(GItem::ExternType(n.0.clone(), attrs_from_g(a)));
    }
    for b in &m.backends {
        items.push(GItem::Backend {
            name: b.name.0.clone(),
            form: 0,
            prologue: b.prologue.clone(),
            epilogue: b.epilogue.clone(),
        });
    }
    for d in &m.definitions {
        let (attrs, body) = match &d.inner {
            g::ItemDefinitionInner::Type(t) => (
                attrs_from_g(&t.attributes),
                GDef::Type(
                    t.statements
                        .iter()
                        .map(|s| GStmt {
                            attrs: attrs_from_g(&s.attributes),
                            field: match &s.field {
                                g::TypeField::Field(v, n, t) => {
                                    GField::Field(*v == g::Visibility::Public, n.0.clone(), ty_from_g(t))
                                }
                                g::TypeField::Vftable(fs) => GField::Vftable(fs.iter().map(func_from_g).collect()),
                            },
                        })
                        .collect(),
                    false,
                ),
            ),
            g::ItemDefinitionInner::Enum(e) => (
                attrs_from_g(&e.attributes),
                GDef::Enum(
                    ty_from_g(&e.type_),
                    e.statements
                        .iter()
                        .map(|s| GEnumStmt {
                            attrs: attrs_from_g(&s.attributes),
                            name: s.name.0.clone(),
                            expr: s.expr.as_ref().map(expr_from_g),
                        })
                        .collect(),
                ),
            ),
        };
        items.push(GItem::Def {
            attrs,
            vis: d.visibility == g::Visibility::Public,
            name: d.name.0.clone(),
            body,
        });
    }
    for i in &m.impls {
        items.push(GItem::Impl {
            attrs: attrs_from_g(&i.attributes),
            name: i.name.0.clone(),
            funcs: i.functions.iter().map(func_from_g).collect(),
        });
    }
    for ev in &m.extern_values {
        items.push(GItem::ExternValue {
            attrs: attrs_from_g(&ev.attributes),
            vis: ev.visibility == g::Visibility::Public,
            name: ev.name.0.clone(),
            ty: ty_from_g(&ev.type_),
        });
    }
    GMod {
        attrs: attrs_from_g(&m.attributes),
        items,
    }
}

// ---------------------------------------------------------------- printer

/// Styling source: None = canonical (fixed, minimal), Some = randomised.
pub struct Style {
    pub mix: Option<Mix>,
}
impl Style {
    pub fn canonical() -> Style {
        Style { mix: None }
    }
    pub fn random(seed: u64) -> Style {
        Style {
            mix: Some(Mix(seed)),
        }
    }
    fn below(&mut self, n: u64) -> u64 {
        match &mut self.mix {
            None => 0,
            Some(m) => m.below(n),
        }
    }
    fn chance(&mut self, num: u64, den: u64) -> bool {
        match &mut self.mix {
            None => false,
            Some(m) => m.chance(num, den),
        }
    }
}

pub struct Printer {
    pub toks: Vec<String>,
    pub st: Style,
}

fn group_digits(digits: &str, every: usize) -> String {
    let mut out = String::new();
    let len = digits.len();
    for (i, c) in digits.chars().enumerate() {
        if i > 0 && (len - i) % every == 0 {
            out.push('_');
        }
        out.push(c);
    }
    out
}

fn doc_comment_ok(s: &str) -> bool {
    !s.starts_with('/') && !s.contains('\n') && !s.contains('\r')
}

impl Printer {
    pub fn new(st: Style) -> Printer {
        Printer { toks: vec![], st }
    }
    fn t(&mut self, s: &str) {
        self.toks.push(s.to_string());
    }
    fn uint(&mut self, v: u128) -> String {
        match self.st.below(7) {
            0 | 1 => format!("{v}"),
            2 => format!("0x{v:X}"),
            3 => format!("0x{}", group_digits(&format!("{v:x}"), 4)),
            4 => group_digits(&format!("{v}"), 3),
            5 => format!("0o{v:o}"),
            _ => format!("0b{v:b}"),
        }
    }
    fn int(&mut self, v: i64) -> String {
        let body = self.uint(v.unsigned_abs() as u128);
        if v < 0 {
            format!("-{body}")
        } else {
            body
        }
    }
    fn string(&mut self, s: &str) -> String {
        // a bare CR cannot be written in a raw string; CR LF can
        let raw_ok = !s.replace("\r\n", "").contains('\r');
        if raw_ok && self.st.chance(1, 3) {
            let mut n = self.st.below(2) as usize;
            loop {
                let fence = "#".repeat(n);
                let closes = if n == 0 {
                    s.contains('"')
                } else {
                    s.contains(&format!("\"{fence}"))
                };
                if !closes {
                    return format!("r{fence}\"{s}\"{fence}");
                }
                n += 1;
            }
        }
        format!("{s:?}")
    }
    fn type_name(&mut self, name: &str) {
        // generic-looking names may be split at angle brackets
        if (name.contains('<') || name.contains('>')) && self.st.chance(1, 2) {
            let mut cur = String::new();
            for c in name.chars() {
                if c == '<' || c == '>' {
                    if !cur.is_empty() {
                        self.toks.push(std::mem::take(&mut cur));
                    }
                    self.toks.push(c.to_string());
                } else {
                    cur.push(c);
                }
            }
            if !cur.is_empty() {
                self.toks.push(cur);
            }
        } else {
            self.t(name);
        }
    }
    fn ty(&mut self, t: &Ty) {
        match t {
            Ty::Named(s) => self.type_name(s),
            Ty::CPtr(t) => {
                self.t("*");
                self.t("const");
                self.ty(t);
            }
            Ty::MPtr(t) => {
                self.t("*");
                self.t("mut");
                self.ty(t);
            }
            Ty::Arr(t, n) => {
                self.t("[");
                self.ty(t);
                self.t(";");
                let s = self.uint(*n as u128);
                self.t(&s);
                self.t("]");
            }
            Ty::Unk(n) => {
                self.t("unknown");
                self.t("<");
                let s = self.uint(*n as u128);
                self.t(&s);
                self.t(">");
            }
        }
    }
    fn expr(&mut self, e: &GExpr) {
        match e {
            GExpr::Int(i) => {
                let s = self.int(*i);
                self.t(&s);
            }
            GExpr::Str(s) => {
                let s = self.string(s);
                self.t(&s);
            }
            GExpr::Ident(s) => self.t(s),
        }
    }
    fn attr_part(&mut self, a: &GAttr) {
        match a {
            GAttr::Ident(n) => self.t(n),
            GAttr::Func(n, es) => {
                self.t(n);
                self.t("(");
                for (i, e) in es.iter().enumerate() {
                    if i > 0 {
                        self.t(",");
                    }
                    self.expr(e);
                }
                if !es.is_empty() && self.st.chance(1, 4) {
                    self.t(",");
                }
                self.t(")");
            }
            GAttr::Assign(n, e) => {
                self.t(n);
                self.t("=");
                self.expr(e);
            }
        }
    }
    /// Outer (`inner == false`) or module (`inner == true`) attributes.
    fn attrs(&mut self, attrs: &[GAttr], inner: bool) {
        let mut i = 0;
        while i < attrs.len() {
            if !inner && self.st.chance(1, 12) {
                // an empty attribute list contributes nothing
                self.t("#");
                self.t("[");
                self.t("]");
            }
            // doc attribute as doc comment?
            if let GAttr::Assign(n, GExpr::Str(s)) = &attrs[i] {
                if n == "doc" && doc_comment_ok(s) && (self.st.mix.is_none() || self.st.chance(2, 3)) {
                    let lead = if inner { "//!" } else { "///" };
                    self.toks.push(format!("{lead}{s}\n"));
                    i += 1;
                    continue;
                }
            }
            // group k consecutive attributes in one bracket
            let mut k = 1;
            while i + k < attrs.len() && self.st.chance(1, 2) {
                k += 1;
            }
            self.t("#");
            if inner {
                self.t("!");
            }
            self.t("[");
            for j in 0..k {
                if j > 0 {
                    self.t(",");
                }
                let a = attrs[i + j].clone();
                self.attr_part(&a);
            }
            if self.st.chance(1, 4) {
                self.t(",");
            }
            self.t("]");
            i += k;
        }
    }
    fn func(&mut self, f: &GFunc) {
        self.attrs(&f.attrs, false);
        if f.vis {
            self.t("pub");
        }
        self.t("fn");
        self.t(&f.name);
        self.t("(");
        for (i, a) in f.args.iter().enumerate() {
            if i > 0 {
                self.t(",");
            }
            match a {
                GArg::ConstSelf => {
                    self.t("&");
                    self.t("self");
                }
                GArg::MutSelf => {
                    self.t("&");
                    self.t("mut");
                    self.t("self");
                }
                GArg::Named(n, t) => {
                    self.t(n);
                    self.t(":");
                    self.ty(t);
                }
            }
        }
        if !f.args.is_empty() && self.st.chance(1, 4) {
            self.t(",");
        }
        self.t(")");
        if let Some(r) = &f.ret {
            self.t("->");
            self.ty(r);
        }
    }
    fn funcs(&mut self, fs: &[GFunc]) {
        for (i, f) in fs.iter().enumerate() {
            self.func(f);
            if i + 1 < fs.len() || self.st.mix.is_none() || self.st.chance(3, 4) {
                self.t(";");
            }
        }
    }
    fn backend_text(&mut self, s: &str) -> String {
        // the AST holds the text trimmed: pad with whitespace
        let pads = ["", " ", "\n", "\n    ", "\t", " \n "];
        let a = pads[self.st.below(pads.len() as u64) as usize];
        let b = pads[self.st.below(pads.len() as u64) as usize];
        let padded = format!("{a}{s}{b}");
        self.string(&padded)
    }
    fn item(&mut self, it: &GItem) {
        match it {
            GItem::Use(p) => {
                self.t("use");
                for (i, s) in p.iter().enumerate() {
                    if i > 0 {
                        self.t("::");
                    }
                    self.type_name(s);
                }
                self.t(";");
            }
            GItem::ExternType(n, a) => {
                self.attrs(a, false);
                self.t("extern");
                self.t("type");
                self.type_name(n);
                self.t(";");
            }
            GItem::ExternValue { attrs, vis, name, ty } => {
                self.attrs(attrs, false);
                if *vis {
                    self.t("pub");
                }
                self.t("extern");
                self.t(name);
                self.t(":");
                self.ty(ty);
                self.t(";");
            }
            GItem::Def { attrs, vis, name, body } => {
                self.attrs(attrs, false);
                if *vis {
                    self.t("pub");
                }
                match body {
                    GDef::Type(stmts, semi) => {
                        self.t("type");
                        self.t(name);
                        if stmts.is_empty() && *semi {
                            self.t(";");
                        } else {
                            self.t("{");
                            for (i, s) in stmts.iter().enumerate() {
                                self.attrs(&s.attrs, false);
                                match &s.field {
                                    GField::Field(v, n, t) => {
                                        if *v {
                                            self.t("pub");
                                        }
                                        self.t(n);
                                        self.t(":");
                                        self.ty(t);
                                    }
                                    GField::Vftable(fs) => {
                                        self.t("vftable");
                                        self.t("{");
                                        self.funcs(fs);
                                        self.t("}");
                                    }
                                }
                                if i + 1 < stmts.len() || self.st.mix.is_none() || self.st.chance(3, 4) {
                                    self.t(",");
                                }
                            }
                            self.t("}");
                        }
                    }
                    GDef::Enum(t, stmts) => {
                        self.t("enum");
                        self.t(name);
                        self.t(":");
                        self.ty(t);
                        self.t("{");
                        for (i, s) in stmts.iter().enumerate() {
                            self.attrs(&s.attrs, false);
                            self.t(&s.name);
                            if let Some(e) = &s.expr {
                                self.t("=");
                                self.expr(e);
                            }
                            if i + 1 < stmts.len() || self.st.mix.is_none() || self.st.chance(3, 4) {
                                self.t(",");
                            }
                        }
                        self.t("}");
                    }
                }
            }
            GItem::Impl { attrs, name, funcs } => {
                self.attrs(attrs, false);
                self.t("impl");
                self.t(name);
                self.t("{");
                self.funcs(funcs);
                self.t("}");
            }
            GItem::Backend { name, form, prologue, epilogue } => {
                self.t("backend");
                self.t(name);
                match (form, prologue, epilogue) {
                    (1, Some(p), None) => {
                        self.t("prologue");
                        let s = self.backend_text(p);
                        self.t(&s);
                        self.t(";");
                    }
                    (2, None, Some(e)) => {
                        self.t("epilogue");
                        let s = self.backend_text(e);
                        self.t(&s);
                        self.t(";");
                    }
                    _ => {
                        self.t("{");
                        let swap = self.st.chance(1, 2);
                        let mut parts: Vec<(&str, &Option<String>)> =
                            vec![("prologue", prologue), ("epilogue", epilogue)];
                        if swap {
                            parts.reverse();
                        }
                        for (kw, v) in parts {
                            if let Some(v) = v {
                                self.t(kw);
                                let s = self.backend_text(v);
                                self.t(&s);
                                self.t(";");
                            }
                        }
                        self.t("}");
                    }
                }
            }
        }
    }
    pub fn module(&mut self, m: &GMod) {
        self.attrs(&m.attrs, true);
        for it in &m.items {
            self.item(it);
        }
    }
    /// Join tokens with (randomised) whitespace and comments.
    pub fn finish(mut self) -> String {
        let mut out = String::new();
        let toks = std::mem::take(&mut self.toks);
        for tok in toks.iter() {
            out.push_str(tok);
            if tok.ends_with('\n') {
                // doc comment line: already terminated
                if self.st.chance(1, 3) {
                    out.push_str("    ");
                }
                continue;
            }
            match self.st.below(16) {
                0..=8 => out.push(' '),
                9 | 10 => out.push('\n'),
                11 => out.push_str("\n    "),
                12 => out.push_str("  \t "),
                13 => out.push_str(" /* c, { ] */ "),
                14 => out.push_str(" // note ; } \n"),
                _ => out.push_str("\n\n"),
            }
        }
        out
    }
}

pub fn print_gmod(m: &GMod, st: Style) -> String {
    let mut p = Printer::new(st);
    p.module(m);
    p.finish()
}

// -------------------------------------------------------------- generator

const RUST_KEYWORDS: &[&str] = &[
    "as", "break", "const", "continue", "crate", "else", "enum", "extern", "false", "fn", "for", "if", "impl", "in",
    "let", "loop", "match", "mod", "move", "mut", "pub", "ref", "return", "self", "Self", "static", "struct", "super",
    "trait", "true", "type", "unsafe", "use", "where", "while", "async", "await", "dyn", "abstract", "become", "box",
    "do", "final", "macro", "override", "priv", "typeof", "unsized", "virtual", "yield", "try", "gen",
];
pub fn is_rust_keyword(s: &str) -> bool {
    RUST_KEYWORDS.contains(&s)
}

const CONTEXTUAL: &[&str] = &["meta", "functions", "backend", "prologue", "epilogue", "unknown", "vftable"];

#[derive(Clone, Copy, PartialEq)]
pub enum IdPos {
    /// parsed with pyxis's own Ident: `_` allowed
    Own,
    /// field name: own Ident, but `vftable` would start a vftable block
    FieldName,
    /// must be a syn::Ident (no `_`)
    Syn,
    /// type reference: syn::Ident, and `unknown` starts the unknown<N> form
    TypeRef,
}

pub fn gen_ident(t: &mut Tape, pos: IdPos) -> String {
    let k = t.below(20);
    match k {
        0..=11 => {
            // plain
            let first = b"abcdefghijklmnopqrstuvwxyzABCDEFGHIJKLMNOPQRSTUVWXYZ";
            let rest = b"abcdefghijklmnopqrstuvwxyzABCDEFGHIJKLMNOPQRSTUVWXYZ0123456789_";
            let mut s = String::new();
            s.push(*t.pick(first) as char);
            let n = t.below(7);
            for _ in 0..n {
                s.push(*t.pick(rest) as char);
            }
            if is_rust_keyword(&s) {
                s.push('_');
            }
            if pos == IdPos::FieldName && s == "vftable" {
                s.push('_');
            }
            if pos == IdPos::TypeRef && s == "unknown" {
                s.push('_');
            }
            s
        }
        12 => {
            let n = t.below(1000);
            format!("_x{n}")
        }
        13 => {
            if pos == IdPos::Own || pos == IdPos::FieldName {
                "_".to_string()
            } else {
                "u_".to_string()
            }
        }
        14 | 15 => t
            .pick(&["é", "ß1", "变量", "Ωmega", "naïve", "имя", "x̌y"])
            .to_string(),
        16 => format!("r#{}", t.pick(&["type", "fn", "abc", "match", "pub", "vftable", "unknown", "use", "enum"])),
        17 | 18 => {
            let c = *t.pick(CONTEXTUAL);
            if (pos == IdPos::FieldName && c == "vftable") || (pos == IdPos::TypeRef && c == "unknown") {
                "meta".to_string()
            } else {
                c.to_string()
            }
        }
        _ => t.pick(&["u8", "u32", "void", "address", "size", "doc", "base", "Self_", "union", "default", "auto", "raw"]).to_string(),
    }
}

fn gen_type_name(t: &mut Tape, generics: bool) -> String {
    let base = gen_ident(t, IdPos::TypeRef);
    if generics && t.chance(1, 6) {
        let inner = gen_type_name(t, t.exhausted() == false);
        format!("{base}<{inner}>")
    } else {
        base
    }
}

pub fn gen_uint(t: &mut Tape) -> u64 {
    match t.below(10) {
        0..=5 => t.small(4096),
        6 => *t.pick(&[0u64, 1, 255, 256, 65535, 65536, 0x7fff_ffff, 0x8000_0000, 0xffff_ffff, 0x1_0000_0000]),
        7 => *t.pick(&[i64::MAX as u64, i64::MAX as u64 + 1, u64::MAX, u64::MAX - 1]),
        _ => t.u64(),
    }
}
pub fn gen_int(t: &mut Tape) -> i64 {
    match t.below(10) {
        0..=4 => t.small(4096) as i64,
        5 => -(t.small(4096) as i64),
        6 => *t.pick(&[0i64, -1, 1, i64::MAX, i64::MIN, i64::MIN + 1, 0x7fff_ffff, -0x8000_0000, 0xffff_ffff]),
        _ => t.u64() as i64,
    }
}

pub fn gen_ty(t: &mut Tape, depth: u32) -> Ty {
    let k = if depth >= 5 { t.below(2) } else { t.below(8) };
    match k {
        0 | 1 | 5 => Ty::Named(gen_type_name(t, true)),
        2 => Ty::CPtr(Box::new(gen_ty(t, depth + 1))),
        3 => Ty::MPtr(Box::new(gen_ty(t, depth + 1))),
        4 | 6 => {
            let e = gen_ty(t, depth + 1);
            let n = gen_uint(t);
            Ty::Arr(Box::new(e), n)
        }
        _ => Ty::Unk(gen_uint(t)),
    }
}

fn gen_string(t: &mut Tape, for_doc: bool) -> String {
    let n = t.below(12);
    let mut s = String::new();
    let alphabet: &[&str] = &[
        "a", "B", "z", "0", "9", " ", " ", "_", "-", "/", "\\", "\"", "'", "#", "{", "}", "[", "]", "(", ")", ";", ",", "<",
        ">", "*", "&", "!", "é", "变", "\t", "\n", "\r\n", "\r", "\u{7f}", "\0", "r#\"", "\"#", "//", "/*", "*/", "\u{a0}", "💥",
    ];
    for _ in 0..n {
        let a = *t.pick(alphabet);
        if for_doc && (a == "\n") && t.chance(1, 2) {
            continue;
        }
        s.push_str(a);
    }
    s
}

fn gen_expr(t: &mut Tape) -> GExpr {
    match t.below(4) {
        0 | 1 => GExpr::Int(gen_int(t)),
        2 => GExpr::Str(gen_string(t, false)),
        _ => GExpr::Ident(gen_ident(t, IdPos::Syn)),
    }
}

fn gen_attr(t: &mut Tape) -> GAttr {
    let known = [
        "size", "align", "address", "singleton", "index", "calling_convention", "copyable", "cloneable", "defaultable",
        "default", "base", "packed", "doc",
    ];
    let name = if t.chance(2, 3) {
        t.pick(&known).to_string()
    } else {
        gen_ident(t, IdPos::Own)
    };
    match t.below(6) {
        0 | 1 => GAttr::Ident(name),
        2 | 3 | 4 => {
            let n = t.below(4);
            let es = (0..n).map(|_| gen_expr(t)).collect();
            GAttr::Func(name, es)
        }
        _ => GAttr::Assign(name, gen_expr(t)),
    }
}

fn gen_attrs(t: &mut Tape) -> Vec<GAttr> {
    let n = match t.below(8) {
        0..=2 => 0,
        3..=5 => 1,
        6 => 2,
        _ => 4,
    };
    let mut v = vec![];
    for _ in 0..n {
        if t.chance(1, 3) {
            v.push(GAttr::Assign("doc".into(), GExpr::Str(gen_string(t, true))));
        } else {
            v.push(gen_attr(t));
        }
    }
    v
}

fn gen_func(t: &mut Tape) -> GFunc {
    let attrs = gen_attrs(t);
    let vis = t.chance(1, 2);
    let name = gen_ident(t, IdPos::Own);
    let n = t.below(5);
    let mut args = vec![];
    for _ in 0..n {
        args.push(match t.below(6) {
            0 => GArg::ConstSelf,
            1 => GArg::MutSelf,
            _ => {
                let n = gen_ident(t, IdPos::Syn);
                GArg::Named(n, gen_ty(t, 2))
            }
        });
    }
    let ret = if t.chance(1, 2) { Some(gen_ty(t, 2)) } else { None };
    GFunc {
        attrs,
        vis,
        name,
        args,
        ret,
    }
}

fn gen_backend_text(t: &mut Tape) -> String {
    let s = gen_string(t, false);
    s.trim().to_string()
}

pub fn gen_item(t: &mut Tape) -> GItem {
    match t.below(12) {
        0 => {
            let n = t.below(5);
            let mut p: Vec<String> = (0..n).map(|_| gen_ident(t, IdPos::TypeRef)).collect();
            if let Some(l) = p.last_mut() {
                if t.chance(1, 4) {
                    *l = format!("{l}<{}>", gen_ident(t, IdPos::TypeRef));
                }
            }
            GItem::Use(p)
        }
        1 => {
            let n = gen_type_name(t, true);
            GItem::ExternType(n, gen_attrs(t))
        }
        2 => GItem::ExternValue {
            attrs: gen_attrs(t),
            vis: t.chance(1, 2),
            name: gen_ident(t, IdPos::Own),
            ty: gen_ty(t, 1),
        },
        3 | 4 | 5 | 6 => {
            let attrs = gen_attrs(t);
            let vis = t.chance(1, 2);
            let name = gen_ident(t, IdPos::Own);
            let n = t.below(6);
            let mut stmts = vec![];
            for i in 0..n {
                let sattrs = gen_attrs(t);
                // vftable blocks may appear at any statement index in the grammar
                let field = if t.chance(1, 5) || (i == 0 && t.chance(1, 4)) {
                    let k = t.below(4);
                    GField::Vftable((0..k).map(|_| gen_func(t)).collect())
                } else {
                    GField::Field(t.chance(1, 2), gen_ident(t, IdPos::FieldName), gen_ty(t, 0))
                };
                stmts.push(GStmt { attrs: sattrs, field });
            }
            let semi = stmts.is_empty() && t.chance(1, 2);
            GItem::Def {
                attrs,
                vis,
                name,
                body: GDef::Type(stmts, semi),
            }
        }
        7 | 8 => {
            let attrs = gen_attrs(t);
            let vis = t.chance(1, 2);
            let name = gen_ident(t, IdPos::Own);
            let base = if t.chance(4, 5) {
                Ty::Named(t.pick(&["u8", "u16", "u32", "u64", "i8", "i16", "i32", "i64", "u128", "i128"]).to_string())
            } else {
                gen_ty(t, 3)
            };
            let n = t.below(6);
            let stmts = (0..n)
                .map(|_| GEnumStmt {
                    attrs: gen_attrs(t),
                    name: gen_ident(t, IdPos::Own),
                    expr: if t.chance(1, 2) { Some(gen_expr(t)) } else { None },
                })
                .collect();
            GItem::Def {
                attrs,
                vis,
                name,
                body: GDef::Enum(base, stmts),
            }
        }
        9 => {
            let attrs = gen_attrs(t);
            let name = gen_ident(t, IdPos::Own);
            let n = t.below(4);
            GItem::Impl {
                attrs,
                name,
                funcs: (0..n).map(|_| gen_func(t)).collect(),
            }
        }
        _ => {
            let name = if t.chance(2, 3) { "rust".to_string() } else { gen_ident(t, IdPos::Own) };
            match t.below(4) {
                0 => GItem::Backend {
                    name,
                    form: 1,
                    prologue: Some(gen_backend_text(t)),
                    epilogue: None,
                },
                1 => GItem::Backend {
                    name,
                    form: 2,
                    prologue: None,
                    epilogue: Some(gen_backend_text(t)),
                },
                _ => GItem::Backend {
                    name,
                    form: 0,
                    prologue: if t.chance(2, 3) { Some(gen_backend_text(t)) } else { None },
                    epilogue: if t.chance(2, 3) { Some(gen_backend_text(t)) } else { None },
                },
            }
        }
    }
}

pub fn gen_gmod(t: &mut Tape) -> GMod {
    let attrs = if t.chance(1, 2) { gen_attrs(t) } else { vec![] };
    let n = t.below(9);
    let items = (0..n).map(|_| gen_item(t)).collect();
    GMod { attrs, items }
}
