#!/bin/sh
# usage: tools/run_thorough.sh [ID...]   runs the thorough tier of the given (default: all) properties, one line each
cd "$(dirname "$0")/.." || exit 2
[ -f .cache/sysroot32/ok ] || ./setup.sh >/dev/null 2>&1
ids="$*"
[ -n "$ids" ] || ids="C01 C02 C03 C04 C05 C06 C07 C08 C09 C10 C11 C12 C13 C14 C15 C16 C17 C18 C19 C20"
for id in $ids; do
  start=$(date +%s)
  PV_EVIDENCE_DIR="${PV_EVIDENCE_DIR:-/tmp/thorough_evidence}" ./check $id thorough >/tmp/thorough_$id.out 2>/tmp/thorough_$id.err; rc=$?
  echo "$id thorough exit=$rc $(($(date +%s)-start))s $(grep -E 'VIOLATION|MACHINERY' /tmp/thorough_$id.out /tmp/thorough_$id.err | head -2 | tr '\n' ' ' | cut -c1-300)"
  grep -E "^\[C" /tmp/thorough_$id.err /tmp/thorough_$id.out | cut -c1-200
  [ $rc -ne 0 ] && grep -E "kind=" /tmp/thorough_$id.err /tmp/thorough_$id.out | head -3
done
