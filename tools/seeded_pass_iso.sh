#!/bin/sh
# usage: VERIF_SEED=n [SEED_FILTER=regex] tools/seeded_pass_iso.sh <jobs> <result file>
# A second opinion on the seeded changes under another seed: runs the quick check of every seeded change's
# property in <jobs> isolated runners side by side (scratch worktrees /tmp/mutiso-<k>, /repo untouched).
# The recorded results (seeded/RESULTS.txt) come from run_seeded.sh.
cd /verif || exit 2
jobs=${1:-4}; res=${2:-/tmp/seeded_pass.txt}
: > "$res"
# SEED_FILTER: extended regex on the directory name (e.g. 'C[0-9]+[b-e]?$' for the first five rounds)
ls -d seeded/C??* | grep -E "${SEED_FILTER:-.}" | while read d; do [ -f "$d/patch.diff" ] && echo "$d"; done > /tmp/seeded_pass.list
k=0
while [ $k -lt $jobs ]; do
  ( awk -v k=$k -v n=$jobs 'NR % n == k' /tmp/seeded_pass.list | while read d; do
      id=$(basename "$d" | cut -c1-3)
      out=$(ISO_DIR=/tmp/mutiso-$k tools/try_mutant_iso.sh "$d/patch.diff" "$id" 2>&1)
      echo "$(basename $d): $(echo "$out" | grep -E '^==' | head -1) $(echo "$out" | grep -m1 'part=' | sed 's/^ *//')" >> "$res"
    done
    git -C /repo worktree remove --force /tmp/mutiso-$k/repo 2>/dev/null; rm -rf /tmp/mutiso-$k ) &
  k=$((k+1))
done
wait
git -C /repo worktree prune
sort -o "$res" "$res"
