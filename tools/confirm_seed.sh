#!/bin/sh
# usage: tools/confirm_seed.sh <ID>   — confirms a sub-agent's seeded change in its scratch worktree /tmp/seed/<ID>
# (tests pass with the change at both pointer sizes; demo fails with it and passes without it), then copies it to /verif/seeded/<ID>/.
set -u
ID="$1"; ROOTDIR="${SEEDROOT:-/tmp/seed}"; SUF="${SEEDSUFFIX:-}"; W="$ROOTDIR/$ID"
cd "$W" || exit 2
export CARGO_NET_OFFLINE=true
git diff -- src Cargo.toml > $ROOTDIR/$ID.current.diff
if ! cmp -s $ROOTDIR/$ID.current.diff seed/patch.diff; then echo "$ID: patch.diff differs from the applied change"; fi
T4=$(cargo test --offline 2>&1 | grep -E "^test result" | head -1)
T8=$(PYXIS_TEST_POINTER_SIZE=8 cargo test --offline 2>&1 | grep -E "^test result" | head -1)
sh seed/demo.sh >$ROOTDIR/$ID.demo_with.log 2>&1; WITH=$?
git apply -R seed/patch.diff
sh seed/demo.sh >$ROOTDIR/$ID.demo_without.log 2>&1; WITHOUT=$?
git apply seed/patch.diff
echo "$ID tests4=[$T4] tests8=[$T8] demo_with_change_exit=$WITH demo_without_exit=$WITHOUT"
case "$T4$T8" in *"62 passed; 0 failed"*"62 passed; 0 failed"*) ;; *) echo "$ID: TESTS DO NOT PASS"; exit 1;; esac
[ "$WITH" -ne 0 ] && [ "$WITHOUT" -eq 0 ] || { echo "$ID: DEMO DOES NOT DISCRIMINATE"; exit 1; }
mkdir -p /verif/seeded/$ID$SUF
cp seed/patch.diff seed/demo.sh seed/meta.json /verif/seeded/$ID$SUF/
cp seed/seed_demo.rs /verif/seeded/$ID$SUF/ 2>/dev/null
tail -5 $ROOTDIR/$ID.demo_with.log > /verif/seeded/$ID$SUF/demo_with_change.tail.txt
echo "$ID confirmed"
