#!/bin/sh
# Builds libcore (+compiler_builtins) metadata for i686-pc-windows-msvc with the nightly
# toolchain's rust-src and arranges it as a mini sysroot under /verif/.cache/sysroot32, so that
# `rustc +nightly --target i686-pc-windows-msvc --sysroot … --emit=metadata` can type-check
# emitted crates for a real 32-bit MSVC target.  Offline.
set -eu
ROOT="$(cd "$(dirname "$0")/.." && pwd)"
DEST="$ROOT/.cache/sysroot32"
TARGET=i686-pc-windows-msvc
if [ -f "$DEST/ok" ]; then echo "sysroot32 present"; exit 0; fi
WORK="$ROOT/.cache/sysroot32-build"
rm -rf "$WORK" "$DEST"
mkdir -p "$WORK/src"
cat > "$WORK/Cargo.toml" <<'EOT'
[package]
name = "pvsys"
version = "0.0.0"
edition = "2021"
[workspace]
EOT
printf '#![no_std]\n' > "$WORK/src/lib.rs"
cd "$WORK"
CARGO_NET_OFFLINE=true cargo +nightly check -Zbuild-std=core --target "$TARGET" --offline
LIBDIR="$DEST/lib/rustlib/$TARGET/lib"
mkdir -p "$LIBDIR"
cp "$WORK"/target/$TARGET/debug/deps/libcore-*.rmeta "$LIBDIR/"
cp "$WORK"/target/$TARGET/debug/deps/libcompiler_builtins-*.rmeta "$LIBDIR/" 2>/dev/null || true
cp "$WORK"/target/$TARGET/debug/deps/librustc_std_workspace_core-*.rmeta "$LIBDIR/" 2>/dev/null || true
cd "$ROOT"
rm -rf "$WORK"
# smoke test
T="$ROOT/.cache/sysroot32-smoke.rs"
printf '#![no_std]\n#![feature(abi_vectorcall)]\nextern crate core as std;\npub struct A { pub f: unsafe extern "thiscall" fn(this: *const A), pub g: u64 }\nconst _: [(); 16] = [(); ::core::mem::size_of::<A>()];\n' > "$T"
rustc +nightly --edition 2021 --crate-type lib --target "$TARGET" --sysroot "$DEST" --emit=metadata -o "$ROOT/.cache/sysroot32-smoke.rmeta" "$T"
rm -f "$T" "$ROOT/.cache/sysroot32-smoke.rmeta"
rustup which --toolchain nightly rustc > "$ROOT/.cache/rustc_nightly_path"
rustup which --toolchain stable rustc > "$ROOT/.cache/rustc_stable_path" 2>/dev/null || which rustc > "$ROOT/.cache/rustc_stable_path"
touch "$DEST/ok"
echo "sysroot32 built"
