#!/bin/sh
# usage: SEEDROOT=/tmp/seedN SEEDSUFFIX=x tools/process_round.sh <ID>...
# confirms each sub-agent change (confirm_seed.sh), then runs the property's quick check against it twice in
# the isolated runner: with the harness as last committed and with the working copy.
cd /verif || exit 2
for id in "$@"; do
    if ! tools/confirm_seed.sh $id >/tmp/confirm_$id.log 2>&1; then echo "$id NOT CONFIRMED: $(tail -2 /tmp/confirm_$id.log | tr '\n' ' ')"; continue; fi
    d=seeded/$id$SEEDSUFFIX
    old=$(ISO_HARNESS=committed tools/try_mutant_iso.sh $d/patch.diff $id 2>&1 | grep -E "^==|part=" | head -2 | tr '\n' ' ' | cut -c1-220)
    new=$(tools/try_mutant_iso.sh $d/patch.diff $id 2>&1 | grep -E "^==|part=" | head -2 | tr '\n' ' ' | cut -c1-220)
    echo "$id$SEEDSUFFIX committed: $old"
    echo "$id$SEEDSUFFIX working  : $new"
done
