#!/bin/sh
# usage: tools/silence_sweep.sh <seed>...   runs every quick check under each seed, prints one line per run
cd "$(dirname "$0")/.." || exit 2
[ -f .cache/sysroot32/ok ] || ./setup.sh >/tmp/sweep_setup_$$.log 2>&1 || { echo "setup failed:"; tail -20 /tmp/sweep_setup_$$.log; }
for s in "$@"; do
  for i in 01 02 03 04 05 06 07 08 09 10 11 12 13 14 15 16 17 18 19 20; do
    start=$(date +%s)
    VERIF_SEED=$s ./check C$i quick >/tmp/sweep_$$.out 2>/tmp/sweep_$$.err; rc=$?
    echo "seed=$s C$i exit=$rc $(($(date +%s)-start))s $(grep -E 'VIOLATION|MACHINERY' /tmp/sweep_$$.out /tmp/sweep_$$.err | head -2 | tr '\n' ' ' | cut -c1-300)"
    [ $rc -ne 0 ] && grep -E "kind=" /tmp/sweep_$$.err | head -2
  done
done
rm -f /tmp/sweep_$$.out /tmp/sweep_$$.err
