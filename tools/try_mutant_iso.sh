#!/bin/sh
# usage: tools/try_mutant_iso.sh <patch file> <ID>...
# Like try_mutant.sh, but leaves /repo alone: the patch is applied to a scratch worktree of /repo's HEAD
# (/tmp/mutiso/repo) and the checks run from a scratch copy of the harness that depends on that worktree
# (/tmp/mutiso/verif). For use while a long run needs /repo unchanged; the recorded results
# (seeded/RESULTS.txt) come from run_seeded.sh, which applies each change to /repo itself.
# `tools/try_mutant_iso.sh --clean` removes the scratch trees.
set -u
ISO=${ISO_DIR:-/tmp/mutiso}   # ISO_DIR: another scratch root (several runners side by side)
if [ "${1:-}" = "--clean" ]; then
    git -C /repo worktree remove --force $ISO/repo 2>/dev/null; git -C /repo worktree prune; rm -rf $ISO; exit 0
fi
PATCH="$(readlink -f "$1")"; shift
mkdir -p $ISO
if [ ! -d $ISO/repo ]; then git -C /repo worktree add -q --detach $ISO/repo HEAD || exit 2; fi
cd $ISO/repo || exit 2
git checkout -q --detach "$(git -C /repo rev-parse HEAD)" 2>/dev/null
git checkout -- . 
git apply "$PATCH" || { echo "patch does not apply" >&2; exit 2; }
mkdir -p $ISO/verif
if [ "${ISO_HARNESS:-working}" = "committed" ]; then
    # the harness as last committed (to tell what a check caught before it was strengthened)
    rm -rf $ISO/committed && mkdir -p $ISO/committed && git -C /verif archive HEAD harness | tar -x -C $ISO/committed
    rsync -a --delete --exclude target --exclude build.log $ISO/committed/harness/ $ISO/verif/harness/
else
    # ISO_SRC: another harness source tree (a development copy) instead of the working copy
    rsync -a --delete --exclude target --exclude build.log "${ISO_SRC:-/verif/harness}/" $ISO/verif/harness/
fi
sed -i "s#path = \"/repo\"#path = \"$ISO/repo\"#" $ISO/verif/harness/Cargo.toml
cp /verif/check /verif/KNOWN_FINDINGS.txt $ISO/verif/
rsync -a --delete --exclude 'violation-*' /verif/replays/ $ISO/verif/replays/
for l in corpus .cache fuzz; do [ -e $ISO/verif/$l ] || ln -s /verif/$l $ISO/verif/$l; done
cd $ISO/verif
OUT=/tmp; [ -n "${ISO_DIR:-}" ] && OUT=$ISO
export PV_EVIDENCE_DIR=$OUT/mut_evidence
mkdir -p $PV_EVIDENCE_DIR
for id in "$@"; do
    PV_NO_SHRINK=${PV_NO_SHRINK-1} ./check "$id" quick >$OUT/mut_$id.out 2>$OUT/mut_$id.err
    rc=$?
    echo "== $id exit=$rc $(grep -m1 -E 'VIOLATION|OK property|MACHINERY' $OUT/mut_$id.out $OUT/mut_$id.err | head -1 | cut -c1-200)"
    grep -m2 "kind=" $OUT/mut_$id.err | cut -c1-200
done
cd $ISO/repo && git checkout -- .
