#!/bin/sh
# usage: tools/try_mutant.sh <patch file> <ID>...   applies the patch to /repo, runs the quick checks, reverts.
set -u
PATCH="$(readlink -f "$1")"; shift
cd /repo || exit 2
if ! git diff --quiet; then echo "/repo has uncommitted changes" >&2; exit 2; fi
git apply "$PATCH" || { echo "patch does not apply" >&2; exit 2; }
cd /verif
export PV_EVIDENCE_DIR=/tmp/mut_evidence
mkdir -p $PV_EVIDENCE_DIR
for id in "$@"; do
    PV_NO_SHRINK=${PV_NO_SHRINK-1} ./check "$id" quick >/tmp/mut_$id.out 2>/tmp/mut_$id.err
    rc=$?
    echo "== $id exit=$rc $(grep -m1 -E 'VIOLATION|OK property|MACHINERY' /tmp/mut_$id.out /tmp/mut_$id.err | head -1 | cut -c1-200)"
    grep -m2 "kind=" /tmp/mut_$id.err | cut -c1-200
done
git -C /repo checkout -- .
