#!/bin/sh
# Applies every seeded change to /repo in turn, runs the quick check of its property, reverts; writes seeded/RESULTS.txt
cd /verif || exit 2
: > seeded/RESULTS.txt
for d in seeded/C??*; do
    [ -f "$d/patch.diff" ] || continue
    id=$(basename "$d" | cut -c1-3)
    out=$(tools/try_mutant.sh "$d/patch.diff" "$id" 2>&1)
    line=$(echo "$out" | grep -E "^==" | head -1)
    kind=$(echo "$out" | grep -m1 "part=" | sed 's/^ *//')
    echo "$(basename $d): $line $kind" | tee -a seeded/RESULTS.txt
done
rm -f replays/*/violation-*.json
