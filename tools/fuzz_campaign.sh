#!/bin/sh
# usage: tools/fuzz_campaign.sh <target> <seconds> [jobs]
# Builds the cargo-fuzz target against /repo's current tree (hooks on) and runs a campaign from the
# seed corpus. Crashing inputs are left under fuzz/artifacts/<target>/. Exit 0 also when crashes were
# found: judging them (strict replay through the check's oracle) is the caller's business.
set -u
ROOT="$(cd "$(dirname "$0")/.." && pwd)"
TARGET="$1"; SECS="$2"; JOBS="${3:-16}"
export CARGO_NET_OFFLINE=true RUSTFLAGS="--cfg pyxis_verif"
cd "$ROOT/harness" || exit 2
CORPUS="$ROOT/fuzz/corpus/$TARGET"
mkdir -p "$CORPUS" "$ROOT/fuzz/artifacts/$TARGET"
cp "$ROOT"/corpus/repo/*.pyxis "$ROOT"/corpus/seeds/*.pyxis "$CORPUS"/ 2>/dev/null
cp "$ROOT"/corpus/extra/*.pyxis "$CORPUS"/ 2>/dev/null
if ! cargo +nightly fuzz build --fuzz-dir ../fuzz "$TARGET" >"$ROOT/fuzz/build.log" 2>&1; then
    tail -30 "$ROOT/fuzz/build.log" >&2
    echo "MACHINERY-ERROR: fuzz target does not build" >&2
    exit 2
fi
BIN="$ROOT/fuzz/target/x86_64-unknown-linux-gnu/release/$TARGET"
cd "$ROOT/fuzz" || exit 2
# -fork keeps going after a crash and collects every distinct crashing input
"$BIN" "$CORPUS" -fork="$JOBS" -ignore_crashes=1 -ignore_timeouts=0 -ignore_ooms=0 \
    -max_total_time="$SECS" -len_control=0 -max_len=4096 -dict="$ROOT/fuzz/pyxis.dict" \
    -timeout=20 -rss_limit_mb=2048 -artifact_prefix="$ROOT/fuzz/artifacts/$TARGET/" \
    -seed="${VERIF_SEED:-0}" >"$ROOT/fuzz/campaign-$TARGET.log" 2>&1
echo "campaign exit=$? artifacts: $(ls "$ROOT/fuzz/artifacts/$TARGET" | wc -l)"
grep -E "^#[0-9]+: cov:|INFO: fuzzed for" "$ROOT/fuzz/campaign-$TARGET.log" | tail -2
exit 0
