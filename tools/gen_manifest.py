#!/usr/bin/env python3
"""Writes /verif/MANIFEST.json from the table below (kept here so the file is always valid)."""
import json, os, sys
ROOT = os.path.dirname(os.path.dirname(os.path.abspath(__file__)))
ALL = ["C%02d" % i for i in range(1, 21)]

# id -> (technique, level text, level note, design ref)
CLAIMED = {
 "C12": ("proptest grammar-directed hostile inputs (boundary integers in every numeric position, unusual identifiers, misplaced attributes, recursion, cyclic use) run in rlimit-ed worker processes; parse-error positions through add_file; libFuzzer target build_any (thorough)",
         "Generated-input search with process-level observation: each case runs in a worker under RLIMIT_AS 2 GiB and RLIMIT_CPU 20 s through parse_str, add_module+build+write_module and pyxis::build; any panic (overflow checks on), abort, segfault or limit hit is a violation after one confirming re-run; parse errors must carry file:line:col not after the offending token. The thorough tier adds a coverage-guided libFuzzer campaign whose crashing inputs are re-judged by the same oracle. Exploration.",
         "Resource proportionality is judged against fixed ceilings (2 GiB, 20 CPU-s); positive table sizes/indices are capped at 65536 in generated inputs.",
         "DESIGN.md §4 C12"),
 "C04": ("proptest: executed vfunc wrappers against recording trampolines in generated fake vftables (L3), rustc offset_of! probes on <T>Vftable for both widths (L2), reference slot model for contradicting index/size (L0)",
         "Generated-input search with execution as oracle: every emitted virtual-call wrapper is run on the x86-64 host against a table of recording stubs (two different tables per wrapper) and must make exactly one call into its slot with receiver and arguments in order and pass the result through; slot offsets and table sizes are judged by rustc on both widths; contradicting #[index]/#[size] must be rejected. Exploration.",
         "Execution on the host uses ABI strings normalised to C; integer and pointer arguments only; up to 10 integer-class arguments observed (6 registers + 4 stack slots).",
         "DESIGN.md §4 C04"),
 "C05": ("proptest: executed address-bound wrappers against recording trampolines planted (mmap MAP_FIXED_NOREPLACE) at the declared addresses; L0 rejection cases; declared parameter order and attributes on the impl block (syn)",
         "Generated-input search with execution as oracle: each emitted method is called once on the host; the stub planted at the literal address records id, receiver, arguments (registers and stack) and supplies the return value; a driver binding with the declared return type must compile. Functions without address / with unresolvable parameter or return type / with #[index] must be rejected; a receiver written anywhere among the parameters is rejected or emitted first with the declared parameters in declared order (syn); attributes written on the impl block itself never replace a function's own address or convention. Exploration.",
         "Same execution assumptions as C04; addresses are drawn from ranges that can be mapped on the host.",
         "DESIGN.md §4 C05"),
 "C06": ("proptest: hierarchy generator with single-slot mutations of a compatible prefix (verdict, L0), syn + rustc offset probes for the shared/own vftable pointer on both widths, executed vftable() accessor (L3)",
         "Generated-input search: compatible derived blocks must be accepted and each of eight single mutations rejected; a struct has its own vftable pointer field (at offset 0, first) iff it declares a block and its first base supplies none, else the first base sits at offset 0; vftable() executed on the host returns the word stored at offset 0. Exploration.",
         "Differences in parameter names, docs and visibility between base and derived slots are not generated (the property fixes the verdict only for name, receiver, parameter types, return type, convention).",
         "DESIGN.md §4 C06"),
 "C07": ("proptest: executed re-exposed functions and AsRef/AsMut conversions against the reference method-surface model; compile-time probe for absent conversions",
         "Generated-input search with execution as oracle: for every function the reference model says is re-exposed on a derived type (with its possibly renamed name), the call must land exactly once in the original function's stub with the receiver equal to the sub-object's address along the base path; AsRef/AsMut land at the base's offset; for repeated base types an inherent-const-over-trait-const probe shows that no conversion exists. Exploration.",
         "Sub-object offsets come from the reference layout model (verified against rustc by C01).",
         "DESIGN.md §4 C07"),
 "C08": ("proptest: enum generator; executed discriminant/size/align/Default printing on the host (L3), const probes on i686-pc-windows-msvc (L2), injected defects must be rejected (L0)",
         "Generated-input search: every variant's value, the enum's size/alignment and its Default are printed by the compiled code and compared with the description; the same on a 32-bit target through const probes; out-of-range values, bad default markers are rejected. Known finding F04 (negative value for unsigned base) is excluded by construction and demonstrated by its replay. Exploration.",
         "Values are limited to what the grammar's isize literals can write.",
         "DESIGN.md §4 C08"),
 "C15": ("proptest: executed singleton and extern-value accessors against memory mapped at the declared addresses; L0 rejection of extern values without address; reference binding rule for the accessor's type when the name is defined in several modules",
         "Generated-input search with execution as oracle: type singletons dereference once (null gives None), enum singletons read the value in place, extern accessors return a reference to exactly the declared address with the declared type, writes are visible there; when the type name is defined in several modules, the accessor names the definition the scoping rules select (the C11 module sets and oracle). Exploration.",
         "Addresses are 64-aligned and drawn from ranges that can be mapped on the host.",
         "DESIGN.md §4 C15"),
 "C14": ("proptest rich multi-module inputs through pyxis::build on disk; file-set and exact item-set oracle (syn), marker-const placement for backend text; injected name collisions must be errors; dotted directory and file names",
         "Generated-input search: the output directory must hold exactly one file per module, each with exactly the declared structs/enums/vftable structs/accessors; rust prologue/epilogue markers in order and position, other backends absent; every injected duplicate definition (type/type, type/enum, type/extern, user <T>Vftable, extern value/extern value) must be an error; module files under directory names and stems with dots in them (siblings equal up to a dot) land at <input path>.rs. Exploration.",
         "Backend text is observed through uniquely named marker consts placed in it by the generator.",
         "DESIGN.md §4 C14"),
 "C16": ("proptest rich programs; syn visitor over every bare-fn type of the unnormalised output against the declared/default convention per slot and wrapper; unknown names must be rejected; a derived table restating a slot with another convention",
         "Generated-input search: each vftable slot and each address-bound wrapper must carry the declared calling convention or the documented default, placeholder slots thiscall, consistent through inheritance; 18 near-miss names must be rejected and the 7 real ones accepted; a chain whose last level restates one base slot with a different convention is rejected or has one ABI string per base slot in every table. Exploration.",
         "Method surface (which wrappers exist on which type) comes from the reference model in refmodel.rs.",
         "DESIGN.md §4 C16"),
 "C17": ("proptest rich programs with random visibility/marker/doc assignment; syn view of the output compared with the reference placement; multiset equality of all doc lines per file",
         "Generated-input search: visibility, derives, packing and doc placement of every emitted counterpart are compared with the declaration, and the multiset of doc lines found anywhere in each file must equal the expected one (so docs cannot leak to other items). Exploration.",
         "Docs on unnamed `_` fields and trailing empty doc lines are not generated (DESIGN.md §2.1).",
         "DESIGN.md §4 C17"),
 "C19": ("proptest metamorphic pairs: accepted program vs the same program with changes outside the observed module's use-closure; byte equality of the observed module's file",
         "Generated-input search over pairs of input sets that differ only in definitions unreachable from the observed module (fresh modules and items that reuse short names the module uses, removed modules, reordered modules); the observed output file must be byte-identical. Exploration.",
         "Reachability = transitive closure over `use` paths (the generator only creates cross-module references through imports).",
         "DESIGN.md §4 C19"),
 "C20": ("proptest metamorphic pairs: accepted program vs a seeded combination of the nine listed semantics-preserving rewrites; byte equality of every output file",
         "Generated-input search over (program, rewrite set): explicit<->implicit addresses, unknown<N> gap<->address, added natural size, added index, explicit enum value, respelled numbers, permuted definitions; the rewritten program must be accepted with byte-identical output. Exploration.",
         "Rewrites are computed with the reference layout model (offsets, natural size, slots).",
         "DESIGN.md §4 C20"),
 "C01": ("proptest layout programs; rustc offset_of!/size_of const probes as oracle on stable x86-64 (width 8) and nightly i686-pc-windows-msvc (width 4)",
         "Generated-input search with the Rust compiler as layout oracle: for every named field of every emitted struct of every generated, accepted program, a const probe asserts offset_of!(T, f) == the offset the description states (explicit address, else end of predecessor); the probe is type-checked by rustc for a target of the configured pointer width. Exploration.",
         "rustc's layout of repr(C)/packed structs for x86_64-unknown-linux-gnu and i686-pc-windows-msvc is the ground truth; the expected offsets come from the reference model (cross-checked by size_of probes on every field type).",
         "DESIGN.md §4 C01"),
 "C02": ("proptest layout programs; rustc size_of/align_of const probes against the sizes pyxis resolved (public registry) and against declared attributes",
         "Generated-input search with the Rust compiler as oracle: size_of/align_of of every emitted struct, enum and vftable struct equal what pyxis resolved and relied on; declared #[size]/#[align]/#[packed] equal the compiled values; both pointer widths. Exploration.",
         "Same trusted base as C01.",
         "DESIGN.md §4 C02"),
 "C13": ("proptest rich multi-module programs; the assembled crate is type-checked by rustc (host stable with ABI strings normalised; i686-pc-windows-msvc nightly unmodified) and each file parsed by syn; programs with injected name clashes, judged when accepted",
         "Generated-input search with the compiler as oracle: every accepted program of the documented fragment must give files that parse and a crate that type-checks on both targets; a second part perturbs small programs with name clashes (repeated or re-declared functions and members, renames onto names in use or generated by the backend) and type-checks whatever pyxis accepts. Known findings are excluded from the generator by construction (counted) and demonstrated by their own replays. Exploration.",
         "The harness adds only: mod declarations mirroring the tree, extern type definitions (repr(C, align), Copy+Clone), and the crate root; width 4 uses `extern crate core as std`.",
         "DESIGN.md §4 C13"),
 "C10": ("proptest dependency-graph generator against a reference resolvability model (both directions) + syn inspection of the output + error-message content",
         "Generated-input search: dependency graphs (by-value, array, base, pointer, signature and extern-value edges; forward/backward/self; undefined names; chains up to 48 deep as fixed cases) are built; Ok must coincide with 'all names bind and by-value graph acyclic' per the reference model; on Ok every declared item and every type reference must be present in the output with the expected path; on field-caused Err the message must name every stuck type. Exploration.",
         "Error-message exactness is only checked inside the `failed on types: [..]` list when that phrase is present (otherwise only completeness), so rewording weakens but never falsifies the check. Zero-sized array fields are not expected in the output (pinned from the code).",
         "DESIGN.md §4 C10"),
 "C11": ("proptest module-set generator with same-named definitions of distinct sizes against the reference binding rule; size (L0) and emitted paths (syn)",
         "Generated-input search: the definition a short name denotes is observable through its unique size and through the fully qualified path in the emitted field/pointee/array/parameter/return/extern-value types; both must be the one the reference scoping rule selects, and no binding must mean Err. Exploration.",
         "Trusts the reference binding rule in refmodel.rs (written from the property statement).",
         "DESIGN.md §4 C11"),
 "C09": ("proptest programs x enumerated resolution schedules (cfg hook) x module-order permutations x repeated and fresh-process builds; byte-equality oracle",
         "Generated-input search over programs and schedules: every generated program is rebuilt under hash order (repeated), sorted/reverse/seeded set-dependent schedules, every priority permutation of its user items when it has <= 5 (6 in thorough) of them, every permutation of add_module order, and in fresh processes through pyxis::build on disk; all runs must agree on Ok/Err and on every output byte. Exploration; exhaustive over priority schedules only for the small programs stated.",
         "Schedules are installed through the cfg(pyxis_verif) hook in TypeRegistry::unresolved(); iteration order of the modules map (which file is written first) is sampled by fresh processes only.",
         "DESIGN.md §4 C09"),
 "C03": ("proptest + exhaustive small-scope grid against a reference realisability predicate (both directions)",
         "Generated-input search with a two-sided oracle: SemanticState::build returns Ok iff the reference model (written from the property statement) says the single-type description is realisable, and on Ok the resolved size/alignment equal the model's. An exhaustive grid (<=2 fields x address x size x align x packed x vftable x width) plus random descriptions with up to 8 fields, plus types whose members are other user types (empty, zero-sized with alignment, packed, over-aligned, vftable owners, enums, extern types; by value, in arrays, as bases). Exploration; exhaustive only inside the stated grid.",
         "Trusts the reference model in harness/src/refmodel.rs (default-alignment rule pinned from the code, see DESIGN.md §2.2).",
         "DESIGN.md §4 C03"),
 "C18": ("proptest round-trip print->parse, parse->print->parse, bad-token negative; tape-driven generators over the full grammar",
         "Generated-input search: abstract modules over the whole grammar printed by an independent randomised printer must parse back to the same AST; mutated texts that parse must survive canonical re-printing; stray tokens must be rejected at a position not after the token. Exploration, no absence claim.",
         "Trusts the harness's printer (gast.rs) and the mirror AST conversion; syn/proc-macro2 lexing is part of the system under test.",
         "DESIGN.md §4 C18"),
}

def main():
    hooks_commits = []
    p = os.path.join(ROOT, "tools", "hook_commits.txt")
    if os.path.exists(p):
        hooks_commits = [l.strip() for l in open(p) if l.strip()]
    na_reasons = {}
    p = os.path.join(ROOT, "tools", "not_applicable.json")
    if os.path.exists(p):
        na_reasons = json.load(open(p))
    checks = []
    for pid in ALL:
        if pid not in CLAIMED:
            continue
        tech, text, note, ref = CLAIMED[pid]
        checks.append({
            "property_id": pid,
            "quick_cmd": "./check %s quick" % pid,
            "thorough_cmd": "./check %s thorough" % pid,
            "evidence_file": "/verif/evidence/%s.json" % pid,
            "replay_cmd_template": "./check %s --replay {path}" % pid,
            "engine": "pv",
            "level_claimed": {"category": "exploration", "text": text, "design_ref": ref},
            "level_note": note,
            "technique": tech,
        })
    na = [{"property_id": pid, "reason": na_reasons.get(pid, "check not built yet (work in progress, see DESIGN.md §9); no claim is made")}
          for pid in ALL if pid not in CLAIMED]
    m = {
        "version": 1,
        "setup_cmd": "./setup.sh",
        "hooks": {
            "guard": "--cfg pyxis_verif",
            "enable": "RUSTFLAGS=--cfg pyxis_verif via /verif/harness/.cargo/config.toml (the harness path-depends on /repo, so every ./check rebuilds pyxis from the current working tree with the guard on)",
            "baseline_off_cmd": "cd /repo && cargo test --workspace --no-fail-fast --offline",
            "source_commits": hooks_commits,
            "add_only": True,
        },
        "engines": [{
            "name": "pv",
            "path": "/verif/harness",
            "serves_properties": sorted(CLAIMED.keys()),
            "kind_free_text": "Rust binary: proptest-generated choice tapes -> program generators -> real pyxis pipeline in-process -> oracles (reference model, round trip, metamorphic, rustc as layout judge, executed wrappers); shrinking with proptest value trees; replay files",
        }],
        "checks": checks,
        "not_applicable": na,
        "notes": "Exit codes of ./check: 0 held, 1 VIOLATION line, 2 machinery could not run. KNOWN_FINDINGS.txt lists known:/fixed: findings with replay files.",
    }
    json.dump(m, open(os.path.join(ROOT, "MANIFEST.json"), "w"), indent=1)
    print("wrote MANIFEST.json with", len(checks), "checks")

if __name__ == "__main__":
    main()
