#![no_main]
//! C12: any byte string, taken as one module (or two, split at the first form feed), is parsed, added,
//! built at width 4 or 8 and written out; the oracle inside the target turns every caught panic into a crash.
use libfuzzer_sys::fuzz_target;
use pv::checks::c12::{run_case_in_process, Case};

fuzz_target!(|data: &[u8]| {
    static INIT: std::sync::Once = std::sync::Once::new();
    INIT.call_once(pv::pipeline::install_quiet_panic_hook);
    let Ok(text) = std::str::from_utf8(data) else { return };
    let w = if data.len() % 2 == 0 { 4 } else { 8 };
    let files: Vec<(String, String)> = match text.split_once('\u{c}') {
        Some((a, b)) => vec![("a.pyxis".to_string(), a.to_string()), ("dir/b.pyxis".to_string(), b.to_string())],
        None => vec![("a.pyxis".to_string(), text.to_string())],
    };
    let v = run_case_in_process(&Case { files, w, what: "fuzz".into() });
    // inputs asking for > 65536 vftable slots are skipped inside run_case_in_process ("skipped-huge-table")
    if v["status"] == "panic" {
        eprintln!("PV-PANIC {}", v);
        std::process::abort();
    }
});
