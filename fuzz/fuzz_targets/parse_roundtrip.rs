#![no_main]
//! C18: whenever arbitrary text parses to a module m, the canonical print of m parses back to m.
use libfuzzer_sys::fuzz_target;
use pv::checks::c18::ParsePrintParse;
use pv::driver::{Prop, Verdict};

fuzz_target!(|data: &[u8]| {
    static INIT: std::sync::Once = std::sync::Once::new();
    INIT.call_once(pv::pipeline::install_quiet_panic_hook);
    let Ok(text) = std::str::from_utf8(data) else { return };
    let o = ParsePrintParse.judge(&pv::checks::c18::TextCase { text: text.to_string() });
    if let Verdict::Fail(k, d) = o.verdict {
        eprintln!("PV-FAIL {k}: {d}");
        std::process::abort();
    }
});
